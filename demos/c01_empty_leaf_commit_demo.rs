// Demonstration (public API) of the C01 defect found by harness bucket_commit_after_emptying_first_leaf:
// emptying exactly one of two leaves of a bucket in a write transaction makes commit panic
// (src/bucket.rs spill: `self.page_node_ids[&self.meta.root_page]` -- "no entry found for key").
// Place in /repo/tests/ and run `cargo test --offline --test c01_empty_leaf_commit_demo`.
use jammdb::{Data, OpenOptions};

#[test]
fn commit_after_emptying_one_of_two_leaves() {
    let p = std::env::temp_dir().join("jv_c01_demo.db");
    let _ = std::fs::remove_file(&p);
    let db = OpenOptions::new().pagesize(1024).open(&p).unwrap();
    // find a key count that gives exactly two leaves under a branch root
    {
        let tx = db.tx(true).unwrap();
        let b = tx.create_bucket("b").unwrap();
        for i in 0..30u32 {
            b.put(format!("k{:03}", i), vec![7u8; 40]).unwrap();
        }
        tx.commit().unwrap();
    }
    // read the committed order, then delete keys from the front one by one in separate attempts until the
    // first leaf is empty: committing right then must work
    for n in 1..30usize {
        let q = std::env::temp_dir().join("jv_c01_demo_copy.db");
        drop(std::fs::copy(&p, &q).unwrap());
        let db2 = OpenOptions::new().pagesize(1024).open(&q).unwrap();
        let tx = db2.tx(true).unwrap();
        let b = tx.get_bucket("b").unwrap();
        for i in 0..n {
            b.delete(format!("k{:03}", i)).unwrap();
        }
        drop(b);
        tx.commit().unwrap_or_else(|e| panic!("commit failed after deleting the first {} keys: {:?}", n, e));
        let tx = db2.tx(false).unwrap();
        let b = tx.get_bucket("b").unwrap();
        let got: Vec<String> = b
            .cursor()
            .map(|d| match d {
                Data::KeyValue(kv) => String::from_utf8(kv.key().to_vec()).unwrap(),
                _ => panic!(),
            })
            .collect();
        let want: Vec<String> = (n as u32..30).map(|i| format!("k{:03}", i)).collect();
        assert_eq!(got, want, "after deleting the first {} keys", n);
        drop(b);
        drop(tx);
        drop(db2);
        let _ = std::fs::remove_file(&q);
    }
    let _ = std::fs::remove_file(&p);
}
