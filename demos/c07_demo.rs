use jammdb::{OpenOptions, Data};
#[test]
fn scan_after_emptying_first_leaf() {
    let p = std::env::temp_dir().join("jv_c07_demo.db");
    let _ = std::fs::remove_file(&p);
    let db = OpenOptions::new().pagesize(1024).open(&p).unwrap();
    {
        let tx = db.tx(true).unwrap();
        let b = tx.create_bucket("b").unwrap();
        for i in 0..200u32 { b.put(format!("k{:05}", i), vec![7u8; 20]).unwrap(); }
        tx.commit().unwrap();
    }
    let tx = db.tx(true).unwrap();
    let b = tx.get_bucket("b").unwrap();
    // delete a prefix of keys long enough to empty the first leaf (and maybe more)
    for i in 0..40u32 { b.delete(format!("k{:05}", i)).unwrap(); }
    let got: Vec<String> = b.cursor().map(|d| match d { Data::KeyValue(kv) => String::from_utf8(kv.key().to_vec()).unwrap(), _ => panic!() }).collect();
    let want: Vec<String> = (40..200u32).map(|i| format!("k{:05}", i)).collect();
    assert_eq!(got.len(), want.len(), "scan stops early: got {} of {}", got.len(), want.len());
    assert_eq!(got, want);
    drop(b); drop(tx); drop(db);
    let _ = std::fs::remove_file(&p);
}
