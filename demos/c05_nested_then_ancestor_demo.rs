// C05 demonstration: deleting a nested bucket and then its ancestor in ONE transaction frees the nested bucket's
// pages twice: the committed free list carries duplicate entries and DB::check() rejects the file.
use jammdb::{DB, OpenOptions};

fn freelist_ids(path: &std::path::Path, ps: usize) -> Vec<u64> {
    let f = std::fs::read(path).unwrap();
    let rd = |o: usize| u64::from_le_bytes(f[o..o + 8].try_into().unwrap());
    // newer valid meta: take the larger tx id (both are valid after clean commits)
    let (t0, t1) = (rd(32 + 56), rd(ps + 32 + 56));
    let m = if t0 > t1 { 0 } else { ps };
    let fl = rd(m + 32 + 48) as usize;
    let n = rd(fl * ps + 16) as usize;
    (0..n).map(|i| rd(fl * ps + 32 + 8 * i)).collect()
}

#[test]
fn delete_nested_then_ancestor() {
    let dir = std::env::temp_dir().join(format!("c05demo-{}", std::process::id()));
    let _ = std::fs::remove_file(&dir);
    let db: DB = OpenOptions::new().pagesize(1024).open(&dir).unwrap();
    {
        let tx = db.tx(true).unwrap();
        let p = tx.create_bucket("parent").unwrap();
        let c = p.create_bucket("child").unwrap();
        for i in 0..10u32 {
            c.put(format!("k{:03}", i), vec![7u8; 40]).unwrap();
        }
        p.put("x", "y").unwrap();
        tx.commit().unwrap();
    }
    db.check().unwrap();
    {
        let tx = db.tx(true).unwrap();
        let p = tx.get_bucket("parent").unwrap();
        p.delete_bucket("child").unwrap();
        tx.delete_bucket("parent").unwrap();
        tx.commit().unwrap();
    }
    let ids = freelist_ids(&dir, 1024);
    let mut sorted = ids.clone();
    sorted.sort();
    let mut dedup = sorted.clone();
    dedup.dedup();
    let chk = db.check();
    let _ = std::fs::remove_file(&dir);
    assert_eq!(sorted, dedup, "the committed free list names a page twice: {:?}", ids);
    chk.unwrap();
}
