//! Commit-time rebalance leaves a stale separator key behind, and the entry of a nested bucket
//! that was touched in the same transaction is then written a second time, into the wrong leaf.
//!
//! Public API + std only.  The test builds a bucket whose B+tree has three levels
//! (root branch -> inner branch pages -> leaves), reads the tree layout back from the raw file,
//! and then, in ONE write transaction,
//!   (a) puts a key into a nested bucket N whose entry lives in the FIRST leaf L of an inner
//!       branch page B2 that is not the root's first child,
//!   (b) deletes every other entry of L (L is underfull, still holds N, and is merged into its
//!       RIGHT sibling S, whose separator in B2 is now larger than its first key),
//!   (c) deletes every key of all the other leaves under B2 (B2 is left with the single branch
//!       for S and is merged into its LEFT sibling B1, stale separator included).
//! When the transaction commits, `InnerBucket::spill` looks N up by name to store its new
//! root page, is sent to the wrong leaf by the stale separator, does not find N there and
//! inserts a second entry for it.

use std::collections::BTreeMap;
use std::path::{Path, PathBuf};

use jammdb::{Data, OpenOptions, DB};

const PAGESIZE: u64 = 1024;
const KEY_LEN: usize = 100;
const VAL_LEN: usize = 100;
/// keys 0, 2, 4, ... 2*(NUM_KEYS-1) are plain key/value pairs
const NUM_KEYS: u64 = 20;
const BUCKET: &[u8] = b"t";

// ---------------------------------------------------------------------------------------------
// keys and values
// ---------------------------------------------------------------------------------------------

fn key(i: u64) -> Vec<u8> {
    let mut k = format!("{:08}", i).into_bytes();
    k.resize(KEY_LEN, b'.');
    k
}

fn val(i: u64) -> Vec<u8> {
    let mut v = format!("v{:08}", i).into_bytes();
    v.resize(VAL_LEN, b'_');
    v
}

/// short printable form of a key: its numeric prefix
fn show(k: &[u8]) -> String {
    String::from_utf8_lossy(&k[..k.len().min(8)]).into_owned()
}

fn num(k: &[u8]) -> u64 {
    std::str::from_utf8(&k[..8]).unwrap().parse().unwrap()
}

// ---------------------------------------------------------------------------------------------
// a minimal reader for the file format
// ---------------------------------------------------------------------------------------------

fn u64_at(buf: &[u8], off: usize) -> u64 {
    u64::from_le_bytes(buf[off..off + 8].try_into().unwrap())
}

const T_BRANCH: u8 = 1;
const T_LEAF: u8 = 2;
const T_META: u8 = 3;

struct LeafEntry {
    is_bucket: bool,
    key: Vec<u8>,
    value: Vec<u8>,
}

enum RawPage {
    Branch(Vec<(Vec<u8>, u64)>),
    Leaf(Vec<LeafEntry>),
}

struct Raw {
    buf: Vec<u8>,
}

impl Raw {
    fn read(path: &Path) -> Raw {
        Raw {
            buf: std::fs::read(path).unwrap(),
        }
    }

    /// root page of the root bucket, from the meta page with the larger tx_id
    fn meta_root(&self) -> u64 {
        let mut best: Option<(u64, u64)> = None;
        for p in 0..2usize {
            let base = p * PAGESIZE as usize;
            if self.buf[base + 8] != T_META {
                continue;
            }
            let rec = base + 32;
            let root = u64_at(&self.buf, rec + 24);
            let tx_id = u64_at(&self.buf, rec + 56);
            if best.map_or(true, |(_, t)| tx_id > t) {
                best = Some((root, tx_id));
            }
        }
        best.expect("no meta page").0
    }

    fn page(&self, id: u64) -> RawPage {
        let base = (id * PAGESIZE) as usize;
        assert_eq!(u64_at(&self.buf, base), id, "page header id");
        let ty = self.buf[base + 8];
        let count = u64_at(&self.buf, base + 16) as usize;
        let elems = base + 32;
        match ty {
            T_BRANCH => {
                let mut v = Vec::new();
                for i in 0..count {
                    let e = elems + i * 24;
                    let child = u64_at(&self.buf, e);
                    let ksz = u64_at(&self.buf, e + 8) as usize;
                    let pos = u64_at(&self.buf, e + 16) as usize;
                    v.push((self.buf[e + pos..e + pos + ksz].to_vec(), child));
                }
                RawPage::Branch(v)
            }
            T_LEAF => {
                let mut v = Vec::new();
                for i in 0..count {
                    let e = elems + i * 32;
                    let node_type = self.buf[e];
                    let pos = u64_at(&self.buf, e + 8) as usize;
                    let ksz = u64_at(&self.buf, e + 16) as usize;
                    let vsz = u64_at(&self.buf, e + 24) as usize;
                    v.push(LeafEntry {
                        is_bucket: node_type == 1,
                        key: self.buf[e + pos..e + pos + ksz].to_vec(),
                        value: self.buf[e + pos + ksz..e + pos + ksz + vsz].to_vec(),
                    });
                }
                RawPage::Leaf(v)
            }
            other => panic!("page {} has unexpected type {}", id, other),
        }
    }

    /// all leaves below `root`, left to right, as (page id, entries)
    fn leaves(&self, root: u64) -> Vec<(u64, Vec<LeafEntry>)> {
        match self.page(root) {
            RawPage::Leaf(entries) => vec![(root, entries)],
            RawPage::Branch(children) => children
                .iter()
                .flat_map(|(_, child)| self.leaves(*child))
                .collect(),
        }
    }

    fn depth(&self, root: u64) -> usize {
        match self.page(root) {
            RawPage::Leaf(_) => 1,
            RawPage::Branch(children) => 1 + self.depth(children[0].1),
        }
    }

    /// root page of the top-level bucket `name`
    fn bucket_root(&self, name: &[u8]) -> u64 {
        for (_, entries) in self.leaves(self.meta_root()) {
            for e in entries {
                if e.is_bucket && e.key == name {
                    return u64_at(&e.value, 0);
                }
            }
        }
        panic!("top-level bucket not found in the raw file");
    }

    fn branch(&self, id: u64) -> Vec<(Vec<u8>, u64)> {
        match self.page(id) {
            RawPage::Branch(b) => b,
            RawPage::Leaf(_) => panic!("page {} is a leaf, expected a branch", id),
        }
    }

    fn leaf(&self, id: u64) -> Vec<LeafEntry> {
        match self.page(id) {
            RawPage::Leaf(l) => l,
            RawPage::Branch(_) => panic!("page {} is a branch, expected a leaf", id),
        }
    }

    /// printable dump of a three level tree
    fn dump(&self, root: u64) -> String {
        let mut out = String::new();
        for (bi, (bkey, bpage)) in self.branch(root).iter().enumerate() {
            out += &format!("  inner[{}] page {} sep {}\n", bi, bpage, show(bkey));
            for (lkey, lpage) in self.branch(*bpage) {
                let keys: Vec<String> = self
                    .leaf(lpage)
                    .iter()
                    .map(|e| {
                        if e.is_bucket {
                            format!("[{}]", show(&e.key))
                        } else {
                            show(&e.key)
                        }
                    })
                    .collect();
                out += &format!(
                    "    leaf page {:3} sep {} : {}\n",
                    lpage,
                    show(&lkey),
                    keys.join(" ")
                );
            }
        }
        out
    }
}

// ---------------------------------------------------------------------------------------------
// checks
// ---------------------------------------------------------------------------------------------

/// None = nested bucket, Some(v) = key/value pair
type Model = BTreeMap<Vec<u8>, Option<Vec<u8>>>;

fn check_api(db: &DB, model: &Model, nested: &[u8], inside: &Model, when: &str) -> Vec<String> {
    let mut bad = Vec::new();
    let tx = db.tx(false).unwrap();
    let b = tx.get_bucket(BUCKET).unwrap();

    let mut seen: Vec<(Vec<u8>, bool)> = Vec::new();
    for data in b.cursor() {
        match data {
            Data::Bucket(n) => seen.push((n.name().to_vec(), true)),
            Data::KeyValue(kv) => {
                if model.get(kv.key()) != Some(&Some(kv.value().to_vec())) {
                    bad.push(format!("{}: cursor: unexpected pair {}", when, show(kv.key())));
                }
                seen.push((kv.key().to_vec(), false))
            }
        }
    }
    for w in seen.windows(2) {
        if w[0].0 >= w[1].0 {
            bad.push(format!(
                "{}: cursor: keys not strictly ascending: {}{} is followed by {}{}",
                when,
                show(&w[0].0),
                if w[0].1 { " (bucket)" } else { "" },
                show(&w[1].0),
                if w[1].1 { " (bucket)" } else { "" },
            ));
        }
    }
    let n_nested = seen.iter().filter(|(k, _)| k == nested).count();
    if n_nested != 1 {
        bad.push(format!(
            "{}: cursor: nested bucket {} is returned {} times, expected once",
            when,
            show(nested),
            n_nested
        ));
    }
    if seen.len() != model.len() {
        bad.push(format!(
            "{}: cursor: {} entries, the model has {}",
            when,
            seen.len(),
            model.len()
        ));
    }
    let expect: Vec<(Vec<u8>, bool)> = model
        .iter()
        .map(|(k, v)| (k.clone(), v.is_none()))
        .collect();
    if seen != expect {
        bad.push(format!("{}: cursor: contents differ from the model", when));
    }
    for (k, v) in model {
        match (v, b.get(k)) {
            (Some(v), Some(Data::KeyValue(kv))) if kv.value() == &v[..] => {}
            (None, Some(Data::Bucket(_))) => {}
            _ => bad.push(format!("{}: get({}) disagrees with the model", when, show(k))),
        }
    }
    // the nested bucket holds what was put
    match b.get_bucket(nested) {
        Ok(n) => {
            let got: Model = n
                .cursor()
                .map(|d| match d {
                    Data::KeyValue(kv) => (kv.key().to_vec(), Some(kv.value().to_vec())),
                    Data::Bucket(x) => (x.name().to_vec(), None),
                })
                .collect();
            if &got != inside {
                bad.push(format!(
                    "{}: nested bucket contents {:?}, expected {:?}",
                    when,
                    got.keys()
                        .map(|k| String::from_utf8_lossy(k).into_owned())
                        .collect::<Vec<_>>(),
                    inside
                        .keys()
                        .map(|k| String::from_utf8_lossy(k).into_owned())
                        .collect::<Vec<_>>(),
                ));
            }
        }
        Err(e) => bad.push(format!("{}: get_bucket(nested) failed: {:?}", when, e)),
    }
    drop(tx);
    if let Err(e) = db.check() {
        bad.push(format!("{}: DB::check() failed: {:?}", when, e));
    }
    bad
}

fn check_raw(path: &Path, model: &Model, nested: &[u8], when: &str) -> Vec<String> {
    let mut bad = Vec::new();
    let raw = Raw::read(path);
    let root = raw.bucket_root(BUCKET);
    let leaves = raw.leaves(root);
    let mut all: Vec<(u64, Vec<u8>, bool)> = Vec::new();
    for (page, entries) in &leaves {
        for e in entries {
            all.push((*page, e.key.clone(), e.is_bucket));
        }
    }
    for w in all.windows(2) {
        if w[0].1 >= w[1].1 {
            bad.push(format!(
                "{}: raw file: keys not strictly ascending across leaves: {} (leaf page {}) is followed by {} (leaf page {})",
                when,
                show(&w[0].1),
                w[0].0,
                show(&w[1].1),
                w[1].0
            ));
        }
    }
    // (leaf page, root page stored in the entry) of every entry with the nested bucket's name
    let places: Vec<(u64, u64)> = leaves
        .iter()
        .flat_map(|(page, entries)| {
            entries
                .iter()
                .filter(|e| e.key == nested)
                .map(|e| (*page, u64_at(&e.value, 0)))
                .collect::<Vec<_>>()
        })
        .collect();
    if places.len() != 1 {
        bad.push(format!(
            "{}: raw file: nested bucket {} occurs {} times, expected once; (leaf page, root page of the nested bucket): {:?}",
            when,
            show(nested),
            places.len(),
            places
        ));
    }
    if all.len() != model.len() {
        bad.push(format!(
            "{}: raw file: {} entries in the leaves, the model has {}",
            when,
            all.len(),
            model.len()
        ));
    }
    // every separator of every branch page must not exceed the first key below it
    fn separators(raw: &Raw, page: u64, bad: &mut Vec<String>, when: &str) -> Option<Vec<u8>> {
        match raw.page(page) {
            RawPage::Leaf(l) => l.first().map(|e| e.key.clone()),
            RawPage::Branch(b) => {
                for (sep, child) in &b {
                    if let Some(first) = separators(raw, *child, bad, when) {
                        if sep[..] > first[..] {
                            bad.push(format!(
                                "{}: raw file: branch page {} has separator {} for page {} whose first key is {}",
                                when, page, show(sep), child, show(&first)
                            ));
                        }
                    }
                }
                b.first().map(|(k, _)| k.clone())
            }
        }
    }
    separators(&raw, root, &mut bad, when);
    if !bad.is_empty() && raw.depth(root) == 3 {
        eprintln!("tree of bucket \"t\" {}:\n{}", when, raw.dump(root));
    }
    bad
}

// ---------------------------------------------------------------------------------------------
// the scenario
// ---------------------------------------------------------------------------------------------

struct TempFile(PathBuf);

impl TempFile {
    fn new(name: &str) -> TempFile {
        let p = std::env::temp_dir().join(format!("jammdb-{}-{}.db", name, std::process::id()));
        let _ = std::fs::remove_file(&p);
        TempFile(p)
    }
}

impl Drop for TempFile {
    fn drop(&mut self) {
        let _ = std::fs::remove_file(&self.0);
    }
}

/// Runs a check, turning a panic inside the library into a reported violation.
fn guarded<F: FnOnce() -> Vec<String>>(when: &str, f: F) -> Vec<String> {
    match std::panic::catch_unwind(std::panic::AssertUnwindSafe(f)) {
        Ok(v) => v,
        Err(p) => {
            let msg = p
                .downcast_ref::<String>()
                .cloned()
                .or_else(|| p.downcast_ref::<&str>().map(|s| s.to_string()))
                .unwrap_or_default();
            vec![format!("{}: reading the bucket panicked: {}", when, msg)]
        }
    }
}

/// `create_in_same_tx == false`: the nested bucket exists already and the transaction under test
/// only puts a key into it.  `true`: the transaction under test creates it.
fn scenario(name: &str, create_in_same_tx: bool) {
    let file = TempFile::new(name);
    let path = file.0.clone();
    let db = OpenOptions::new().pagesize(PAGESIZE).open(&path).unwrap();

    let mut model = Model::new();
    let mut inside = Model::new();

    // ---- setup 1: plain pairs with even numbers ------------------------------------------
    {
        let tx = db.tx(true).unwrap();
        let b = tx.create_bucket(BUCKET).unwrap();
        for i in 0..NUM_KEYS {
            b.put(key(2 * i), val(2 * i)).unwrap();
            model.insert(key(2 * i), Some(val(2 * i)));
        }
        tx.commit().unwrap();
    }
    db.check().unwrap();

    // ---- choose the nested bucket's name from the layout ---------------------------------
    // right after the first key of the first leaf of the second inner branch page
    let nested = {
        let raw = Raw::read(&path);
        let root = raw.bucket_root(BUCKET);
        assert_eq!(raw.depth(root), 3, "the setup must produce a three level tree");
        let inner = raw.branch(root);
        assert!(inner.len() >= 2, "want at least two inner branch pages");
        let b2 = raw.branch(inner[1].1);
        let l = raw.leaf(b2[0].1);
        key(num(&l[0].key) + 1)
    };

    // ---- setup 2: create the nested bucket ----------------------------------------------
    if !create_in_same_tx {
        let tx = db.tx(true).unwrap();
        let b = tx.get_bucket(BUCKET).unwrap();
        let n = b.create_bucket(nested.clone()).unwrap();
        n.put("in0", "zero").unwrap();
        inside.insert(b"in0".to_vec(), Some(b"zero".to_vec()));
        model.insert(nested.clone(), None);
        tx.commit().unwrap();
        db.check().unwrap();
        let bad: Vec<String> = check_api(&db, &model, &nested, &inside, "after setup")
            .into_iter()
            .chain(check_raw(&path, &model, &nested, "after setup"))
            .collect();
        assert!(bad.is_empty(), "setup is already wrong:\n{}", bad.join("\n"));
    }

    // ---- read the layout and plan the deletions -----------------------------------------
    let (to_delete, plan) = {
        let raw = Raw::read(&path);
        let root = raw.bucket_root(BUCKET);
        assert_eq!(raw.depth(root), 3, "the setup must produce a three level tree");
        eprintln!(
            "tree of bucket \"t\" after setup ([..] = nested bucket):\n{}",
            raw.dump(root)
        );
        let inner = raw.branch(root);
        // find the inner page and leaf that hold (or will hold) the nested bucket:
        // the last leaf whose first key is not larger than its name
        let mut found = None;
        for (bi, (_, bpage)) in inner.iter().enumerate() {
            for (li, (_, lpage)) in raw.branch(*bpage).iter().enumerate() {
                if raw.leaf(*lpage)[0].key <= nested {
                    found = Some((bi, li));
                }
            }
        }
        let (bi, li) = found.unwrap();
        assert!(bi >= 1, "the nested bucket must not be under the root's first child");
        assert_eq!(li, 0, "the nested bucket must be in the first leaf of its inner page");
        let b2 = raw.branch(inner[bi].1);
        assert!(b2.len() >= 2, "want a right sibling under B2");

        let mut del: Vec<Vec<u8>> = Vec::new();
        // (b) every other entry of L
        let l = raw.leaf(b2[0].1);
        assert_eq!(l.iter().any(|e| e.key == nested), !create_in_same_tx);
        for e in &l {
            if e.key != nested {
                assert!(!e.is_bucket);
                del.push(e.key.clone());
            }
        }
        let n_from_l = del.len();
        // the right sibling S (b2[1]) is left alone
        // (c) every entry of every other leaf under B2
        for (_, lpage) in &b2[2..] {
            for e in raw.leaf(*lpage) {
                assert!(!e.is_bucket);
                del.push(e.key);
            }
        }
        let plan = format!(
            "nested bucket {} {} leaf page {} = first leaf of inner[{}] (page {}); its right sibling is leaf page {} (separator {}); \
             deleting the {} other entries of that leaf and all {} entries of the {} leaves after the right sibling: keys {:?}",
            show(&nested),
            if create_in_same_tx { "is created in" } else { "is in" },
            b2[0].1,
            bi,
            inner[bi].1,
            b2[1].1,
            show(&b2[1].0),
            n_from_l,
            del.len() - n_from_l,
            b2.len() - 2,
            del.iter().map(|k| num(k)).collect::<Vec<_>>(),
        );
        (del, plan)
    };
    eprintln!("{}", plan);

    // ---- the transaction under test -------------------------------------------------------
    let next_int_before;
    {
        let tx = db.tx(true).unwrap();
        let b = tx.get_bucket(BUCKET).unwrap();
        // (a) touch the nested bucket
        let n = if create_in_same_tx {
            model.insert(nested.clone(), None);
            b.create_bucket(nested.clone()).unwrap()
        } else {
            b.get_bucket(nested.clone()).unwrap()
        };
        next_int_before = b.next_int();
        n.put("in1", "one").unwrap();
        inside.insert(b"in1".to_vec(), Some(b"one".to_vec()));
        // (b) + (c)
        for k in &to_delete {
            b.delete(k).unwrap();
            model.remove(k);
        }
        tx.commit().unwrap();
    }

    // ---- checks ---------------------------------------------------------------------------
    let mut bad = Vec::new();
    bad.extend(guarded("after commit", || {
        check_api(&db, &model, &nested, &inside, "after commit")
    }));
    bad.extend(check_raw(&path, &model, &nested, "after commit"));
    bad.extend(guarded("after commit", || {
        let tx = db.tx(false).unwrap();
        let after = tx.get_bucket(BUCKET).unwrap().next_int();
        if after != next_int_before {
            vec![format!(
                "after commit: next_int of the bucket went from {} to {} although nothing was added to it after it was read",
                next_int_before, after
            )]
        } else {
            vec![]
        }
    }));
    drop(db);
    let db = OpenOptions::new().pagesize(PAGESIZE).open(&path).unwrap();
    bad.extend(guarded("after reopen", || {
        check_api(&db, &model, &nested, &inside, "after reopen")
    }));
    bad.extend(check_raw(&path, &model, &nested, "after reopen"));

    assert!(
        bad.is_empty(),
        "{} violations after a commit that only put one key into a nested bucket and deleted pairs:\n{}\n({})",
        bad.len(),
        bad.join("\n"),
        plan
    );
}

/// The nested bucket exists; the transaction puts one key into it and deletes plain pairs.
#[test]
fn touched_nested_bucket_survives_rebalance_of_its_leaf_and_inner_page() {
    scenario("sep-demo-touched", false);
}

/// Same, but the nested bucket is created by the transaction itself.
#[test]
fn created_nested_bucket_survives_rebalance_of_its_leaf_and_inner_page() {
    scenario("sep-demo-created", true);
}
