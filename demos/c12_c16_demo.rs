use jammdb::{OpenOptions, DB};
use std::io::{Read, Seek, SeekFrom, Write};

#[test]
fn c16_unaligned_pagesize() {
    let p = std::env::temp_dir().join("jv_demo_c16.db");
    let _ = std::fs::remove_file(&p);
    let r = std::panic::catch_unwind(|| {
        let db = OpenOptions::new().pagesize(1028).open(&p).unwrap();
        let tx = db.tx(true).unwrap();
        tx.create_bucket("a").unwrap().put("k", "v").unwrap();
        tx.commit().unwrap();
    });
    let _ = std::fs::remove_file(&p);
    // acceptable: clean refusal (panic from the builder) or it works
    println!("result: {:?}", r.is_ok());
}

#[test]
fn c12_type_byte() {
    let p = std::env::temp_dir().join("jv_demo_c12.db");
    let _ = std::fs::remove_file(&p);
    {
        let db = OpenOptions::new().pagesize(1024).open(&p).unwrap();
        let tx = db.tx(true).unwrap();
        tx.create_bucket("a").unwrap().put("k", "v").unwrap();
        tx.commit().unwrap();
    }
    {
        let mut f = std::fs::OpenOptions::new().read(true).write(true).open(&p).unwrap();
        // damage the page-type byte of header page 1 (the older header after one commit)
        f.seek(SeekFrom::Start(1024 + 8)).unwrap();
        let mut b = [0u8; 1];
        f.read_exact(&mut b).unwrap();
        f.seek(SeekFrom::Start(1024 + 8)).unwrap();
        f.write_all(&[b[0] ^ 0x40]).unwrap();
    }
    let db = OpenOptions::new().pagesize(1024).open(&p).unwrap();
    let tx = db.tx(false).unwrap();
    assert!(tx.get_bucket("a").unwrap().get("k").is_some());
    drop(tx);
    drop(db);
    let _ = std::fs::remove_file(&p);
}
