use std::collections::BTreeMap;

use jammdb::{Data, OpenOptions};
use rand::prelude::*;

fn key(i: u64) -> Vec<u8> {
    let mut k = format!("{:08}", i).into_bytes();
    k.resize(100, b'.');
    k
}

// None = bucket (with its own small model), Some = kv
#[derive(Clone, Debug, PartialEq)]
enum M {
    Kv(Vec<u8>),
    B(BTreeMap<Vec<u8>, Vec<u8>>),
}

fn run(seed: u64, space: u64, txs: usize) -> Result<(), String> {
    let mut rng = StdRng::seed_from_u64(seed);
    let path = std::env::temp_dir().join(format!("jammdb-stress-{}-{}.db", std::process::id(), seed));
    let _ = std::fs::remove_file(&path);
    let db = OpenOptions::new().pagesize(1024).open(&path).unwrap();
    let mut model: BTreeMap<Vec<u8>, M> = BTreeMap::new();
    {
        let tx = db.tx(true).unwrap();
        let b = tx.create_bucket("t").unwrap();
        for i in (0..space).step_by(3) {
            let v = vec![b'p'; 50];
            b.put(key(i), v.clone()).unwrap();
            model.insert(key(i), M::Kv(v));
        }
        tx.commit().unwrap();
    }
    for txn in 0..txs {
        let tx = db.tx(true).unwrap();
        let b = tx.get_bucket("t").unwrap();
        let nops = rng.gen_range(1..6);
        for _ in 0..nops {
            match rng.gen_range(0..10) {
                0..=2 => {
                    // a run of puts
                    let start = rng.gen_range(0..space);
                    let len = rng.gen_range(1..40);
                    for i in start..(start + len).min(space) {
                        let k = key(i);
                        if let Some(M::B(_)) = model.get(&k) {
                            continue;
                        }
                        let v = vec![b'a' + (rng.gen_range(0..26u8)); rng.gen_range(1..200)];
                        b.put(k.clone(), v.clone()).unwrap();
                        model.insert(k, M::Kv(v));
                    }
                }
                3..=6 => {
                    // a run of deletes (kv only)
                    let start = rng.gen_range(0..space);
                    let len = rng.gen_range(1..60);
                    for i in start..(start + len).min(space) {
                        let k = key(i);
                        if let Some(M::Kv(_)) = model.get(&k) {
                            b.delete(&k).unwrap();
                            model.remove(&k);
                        }
                    }
                }
                7 => {
                    // create nested bucket
                    let k = key(rng.gen_range(0..space));
                    if !model.contains_key(&k) {
                        let n = b.create_bucket(k.clone()).unwrap();
                        n.put("c", "created").unwrap();
                        let mut m = BTreeMap::new();
                        m.insert(b"c".to_vec(), b"created".to_vec());
                        model.insert(k, M::B(m));
                    }
                }
                8 => {
                    // touch some nested buckets
                    let names: Vec<Vec<u8>> = model
                        .iter()
                        .filter(|(_, v)| matches!(v, M::B(_)))
                        .map(|(k, _)| k.clone())
                        .collect();
                    for name in names {
                        if rng.gen_bool(0.5) {
                            let n = b.get_bucket(name.clone()).unwrap();
                            let ik = format!("i{}", rng.gen_range(0..5)).into_bytes();
                            let iv = format!("tx{}", txn).into_bytes();
                            n.put(ik.clone(), iv.clone()).unwrap();
                            if let Some(M::B(m)) = model.get_mut(&name) {
                                m.insert(ik, iv);
                            }
                        }
                    }
                }
                _ => {
                    // delete a nested bucket
                    let names: Vec<Vec<u8>> = model
                        .iter()
                        .filter(|(_, v)| matches!(v, M::B(_)))
                        .map(|(k, _)| k.clone())
                        .collect();
                    if let Some(name) = names.choose(&mut rng) {
                        if rng.gen_bool(0.3) {
                            b.delete_bucket(name.clone()).unwrap();
                            model.remove(name);
                        }
                    }
                }
            }
        }
        tx.commit().unwrap();
        // check
        let tx = db.tx(false).unwrap();
        let b = tx.get_bucket("t").unwrap();
        let mut got: Vec<(Vec<u8>, M)> = Vec::new();
        for d in b.cursor() {
            match d {
                Data::KeyValue(kv) => got.push((kv.key().to_vec(), M::Kv(kv.value().to_vec()))),
                Data::Bucket(n) => {
                    let nb = b.get_bucket(n.name().to_vec()).unwrap();
                    let m = nb
                        .cursor()
                        .map(|d| (d.kv().key().to_vec(), d.kv().value().to_vec()))
                        .collect();
                    got.push((n.name().to_vec(), M::B(m)));
                }
            }
        }
        let want: Vec<(Vec<u8>, M)> = model.iter().map(|(k, v)| (k.clone(), v.clone())).collect();
        if got != want {
            let gk: Vec<String> = got.iter().map(|(k, _)| String::from_utf8_lossy(&k[..8]).into_owned()).collect();
            let wk: Vec<String> = want.iter().map(|(k, _)| String::from_utf8_lossy(&k[..8]).into_owned()).collect();
            let _ = std::fs::remove_file(&path);
            return Err(format!("seed {} tx {}: mismatch (keys equal: {})\n got {:?}\nwant {:?}", seed, txn, gk == wk, gk, wk));
        }
        drop(tx);
        if let Err(e) = db.check() {
            let _ = std::fs::remove_file(&path);
            return Err(format!("seed {} tx {}: check failed {:?}", seed, txn, e));
        }
    }
    let _ = std::fs::remove_file(&path);
    Ok(())
}

#[test]
fn stress() {
    let seeds: u64 = std::env::var("SEEDS").ok().and_then(|s| s.parse().ok()).unwrap_or(200);
    let mut fails = Vec::new();
    let mut inconclusive = 0;
    let mut txs_done = 0usize;
    std::panic::set_hook(Box::new(|_| {}));
    for seed in 0..seeds {
        let space = [60, 150, 400][(seed % 3) as usize];
        let r = std::panic::catch_unwind(|| run(seed, space, 60));
        match r {
            Ok(Ok(())) => { txs_done += 60; }
            Ok(Err(e)) => fails.push(e.lines().next().unwrap().to_string()),
            Err(p) => {
                let msg = p.downcast_ref::<String>().cloned().or_else(|| p.downcast_ref::<&str>().map(|s| s.to_string())).unwrap_or_default();
                if msg.contains("Cannot get key parts of empty data") || msg.contains("the len is 0 but the index is 0") { inconclusive += 1; } else { fails.push(format!("seed {} panicked: {}", seed, msg)); }
            }
        }
    }
    let _ = std::panic::take_hook();
    eprintln!("seeds {} inconclusive (other defect) {} clean txs {} fails {}", seeds, inconclusive, txs_done, fails.len());
    assert!(fails.is_empty(), "{} of {} seeds failed ({} inconclusive):\n{}", fails.len(), seeds, inconclusive, fails.join("\n"));
}
