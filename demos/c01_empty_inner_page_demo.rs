//! SIDE FINDING, unrelated to the stale separator (it happens with and without DEMO/fix.diff):
//! deleting, in one transaction, every key below one inner branch page of a three level tree
//! makes `Tx::commit` panic ("Cannot get key parts of empty data" in a debug build,
//! "index out of bounds: the len is 0 but the index is 0" at src/node.rs `first_key` in release).
//! The last leaf of the inner page cannot be removed by `merge_nodes` (its parent has a single
//! branch left), the parent is then merged into its sibling together with the EMPTY leaf, and
//! `Node::spill` sorts the children by `first_key()`.
//! Not part of the suite; copy to tests/ to run.
use jammdb::OpenOptions;

fn key(i: u64) -> Vec<u8> {
    let mut k = format!("{:08}", i).into_bytes();
    k.resize(100, b'.');
    k
}

#[test]
fn empty_whole_inner_page() {
    let path = std::env::temp_dir().join(format!("jammdb-other-{}.db", std::process::id()));
    let _ = std::fs::remove_file(&path);
    let db = OpenOptions::new().pagesize(1024).open(&path).unwrap();
    {
        let tx = db.tx(true).unwrap();
        let b = tx.create_bucket("t").unwrap();
        for i in 0..20u64 {
            b.put(key(2 * i), vec![b'v'; 100]).unwrap();
        }
        tx.commit().unwrap();
    }
    {
        let tx = db.tx(true).unwrap();
        let b = tx.get_bucket("t").unwrap();
        // the second inner branch page holds exactly 18..=28 (see the dump printed by sep_demo.rs)
        for i in [18u64, 20, 22, 24, 26, 28] {
            b.delete(key(i)).unwrap();
        }
        tx.commit().unwrap(); // panics
    }
    db.check().unwrap();
    let tx = db.tx(false).unwrap();
    let b = tx.get_bucket("t").unwrap();
    assert_eq!(b.cursor().count(), 14);
    let _ = std::fs::remove_file(&path);
}
