//! Fault-injection demonstration for property C11:
//! "A commit that reports an I/O error neither corrupts nor half-applies".
//!
//! Run it as an integration test:
//!
//!     cp SEED/seed_demo.rs tests/seed_demo.rs
//!     CARGO_TARGET_DIR=/tmp/seed-C11c/target cargo test --offline --test seed_demo -- --nocapture
//!
//! How it works (Linux / glibc only)
//! ---------------------------------
//! The test binary defines its own `write`, `pwrite64`, `fsync` and `fdatasync` symbols. Because
//! libstd is linked statically into the test binary, `File::write_all` and `File::sync_all` end up
//! in these functions. They forward to the kernel with `libc::syscall`, but for the database file
//! (recognised by device + inode) they
//!
//!  * count the calls and make the n-th one fail with EIO (or make the n-th write a short write and
//!    fail the continuation that `write_all` issues),
//!  * record the sequence of calls (kind, offset, length, result),
//!  * maintain a "crash image" of the file: the bytes that are guaranteed to be on disk. A write goes
//!    to a pending list, a successful fsync moves the pending list into the image, and a FAILED fsync
//!    throws the pending list away. The last point is how Linux behaves: after a failed fsync the
//!    dirty pages are marked clean (and may be dropped), and a later fsync of the same file reports
//!    success without writing them.
//!
//! For two transactions (one that fits into the file, one that has to grow it) every write and every
//! sync of the commit is failed in turn (single faults; writes additionally as "short write, then
//! error"). After each faulted commit the test checks
//!
//!  1. commit did not panic, the hook was really hit, and commit returned Err,
//!  2. a commit that returns Ok saw no failed call, synced the data pages before writing the meta
//!     page and synced after the meta page,
//!  3. on the same handle the contents are exactly the pre- or the post-state and DB::check() passes,
//!  4. the crash image opens, passes DB::check() and holds exactly the pre- or the post-state (the
//!     post-state if commit returned Ok),
//!  5. three further transactions commit correctly on the same handle, with contents, check() and crash
//!     image verified after each one,
//!  6. after a reopen the contents are as expected and check() passes.
//!
//! An extra scenario makes the file extension fail with a file-size limit (RLIMIT_FSIZE).

use std::collections::BTreeMap;
use std::panic::{catch_unwind, AssertUnwindSafe};
use std::path::{Path, PathBuf};
use std::sync::atomic::{AtomicU64, Ordering};
use std::sync::Mutex;

use jammdb::{Data, Error, DB};
use libc::{c_int, c_void, off_t, size_t, ssize_t};

// ---------------------------------------------------------------------------------------------
// libc hooks
// ---------------------------------------------------------------------------------------------

#[derive(Clone, Copy, Debug, PartialEq)]
enum Kind {
    Write,
    Sync,
}

#[derive(Clone, Debug)]
struct Ev {
    kind: Kind,
    off: u64,
    len: usize,
    /// bytes written / 0 for a successful sync / -1 for an injected failure
    ret: isize,
}

#[derive(Clone, Copy, Debug, PartialEq)]
enum Fault {
    None,
    /// the n-th call (0-based, writes and syncs of the database file counted together) fails with EIO
    Fail(usize),
    /// the n-th call, a write, writes only half of its buffer; the write that follows fails with EIO
    Short(usize),
}

struct Hook {
    armed: bool,
    fault: Fault,
    ncalls: usize,
    fail_next_write: bool,
    injected: usize,
    events: Vec<Ev>,
    durable: Vec<u8>,
    pending: Vec<(u64, Vec<u8>)>,
}

static TARGET_DEV: AtomicU64 = AtomicU64::new(0);
static TARGET_INO: AtomicU64 = AtomicU64::new(0);
static HOOK: Mutex<Hook> = Mutex::new(Hook {
    armed: false,
    fault: Fault::None,
    ncalls: 0,
    fail_next_write: false,
    injected: 0,
    events: Vec::new(),
    durable: Vec::new(),
    pending: Vec::new(),
});

fn hook() -> std::sync::MutexGuard<'static, Hook> {
    HOOK.lock().unwrap_or_else(|e| e.into_inner())
}

unsafe fn is_target(fd: c_int) -> bool {
    let ino = TARGET_INO.load(Ordering::SeqCst);
    if ino == 0 {
        return false;
    }
    let mut st: libc::stat = std::mem::zeroed();
    if libc::fstat(fd, &mut st) != 0 {
        return false;
    }
    st.st_ino as u64 == ino && st.st_dev as u64 == TARGET_DEV.load(Ordering::SeqCst)
}

unsafe fn eio() -> isize {
    *libc::__errno_location() = libc::EIO;
    -1
}

/// Common part of `write` and `pwrite64` for the database file. `real(n)` writes the first `n`
/// bytes of the buffer.
unsafe fn hooked_write(buf: *const c_void, count: usize, off: u64, real: &dyn Fn(usize) -> isize) -> isize {
    let mut h = hook();
    let mut want = count;
    if h.armed {
        let n = h.ncalls;
        h.ncalls += 1;
        let fail = h.fail_next_write || h.fault == Fault::Fail(n);
        h.fail_next_write = false;
        if fail {
            h.injected += 1;
            h.events.push(Ev { kind: Kind::Write, off, len: count, ret: -1 });
            return eio();
        }
        if h.fault == Fault::Short(n) && count >= 2 {
            h.injected += 1;
            h.fail_next_write = true;
            want = count / 2;
        }
    }
    let ret = real(want);
    if h.armed {
        h.events.push(Ev { kind: Kind::Write, off, len: count, ret });
    }
    if ret > 0 {
        let data = std::slice::from_raw_parts(buf as *const u8, ret as usize).to_vec();
        h.pending.push((off, data));
    }
    ret
}

unsafe fn hooked_sync(real: &dyn Fn() -> isize) -> isize {
    let mut h = hook();
    if h.armed {
        let n = h.ncalls;
        h.ncalls += 1;
        if h.fault == Fault::Fail(n) {
            h.injected += 1;
            h.events.push(Ev { kind: Kind::Sync, off: 0, len: 0, ret: -1 });
            // Linux: the dirty pages are marked clean, the error is reported once.
            h.pending.clear();
            return eio();
        }
    }
    let ret = real();
    if h.armed {
        h.events.push(Ev { kind: Kind::Sync, off: 0, len: 0, ret });
    }
    if ret == 0 {
        let pending = std::mem::take(&mut h.pending);
        for (off, data) in pending {
            let end = off as usize + data.len();
            if h.durable.len() < end {
                h.durable.resize(end, 0);
            }
            h.durable[off as usize..end].copy_from_slice(&data);
        }
    }
    ret
}

#[no_mangle]
pub unsafe extern "C" fn write(fd: c_int, buf: *const c_void, count: size_t) -> ssize_t {
    if !is_target(fd) {
        return libc::syscall(libc::SYS_write, fd, buf, count) as ssize_t;
    }
    let off = libc::syscall(libc::SYS_lseek, fd, 0 as off_t, libc::SEEK_CUR) as u64;
    hooked_write(buf, count, off, &|n| libc::syscall(libc::SYS_write, fd, buf, n) as isize)
}

#[no_mangle]
pub unsafe extern "C" fn pwrite64(fd: c_int, buf: *const c_void, count: size_t, offset: off_t) -> ssize_t {
    if !is_target(fd) {
        return libc::syscall(libc::SYS_pwrite64, fd, buf, count, offset) as ssize_t;
    }
    hooked_write(buf, count, offset as u64, &|n| {
        libc::syscall(libc::SYS_pwrite64, fd, buf, n, offset) as isize
    })
}

#[no_mangle]
pub unsafe extern "C" fn fsync(fd: c_int) -> c_int {
    if !is_target(fd) {
        return libc::syscall(libc::SYS_fsync, fd) as c_int;
    }
    hooked_sync(&|| libc::syscall(libc::SYS_fsync, fd) as isize) as c_int
}

#[no_mangle]
pub unsafe extern "C" fn fdatasync(fd: c_int) -> c_int {
    if !is_target(fd) {
        return libc::syscall(libc::SYS_fdatasync, fd) as c_int;
    }
    hooked_sync(&|| libc::syscall(libc::SYS_fdatasync, fd) as isize) as c_int
}

/// Start tracking `path` as the database file. Its current contents are taken as durable.
fn set_target(path: &Path) {
    use std::os::unix::fs::MetadataExt;
    let bytes = std::fs::read(path).unwrap();
    let md = std::fs::metadata(path).unwrap();
    {
        let mut h = hook();
        h.armed = false;
        h.fault = Fault::None;
        h.ncalls = 0;
        h.fail_next_write = false;
        h.injected = 0;
        h.events.clear();
        h.pending.clear();
        h.durable = bytes;
    }
    TARGET_DEV.store(md.dev(), Ordering::SeqCst);
    TARGET_INO.store(md.ino(), Ordering::SeqCst);
}

fn clear_target() {
    TARGET_INO.store(0, Ordering::SeqCst);
}

fn arm(fault: Fault) {
    let mut h = hook();
    h.armed = true;
    h.fault = fault;
    h.ncalls = 0;
    h.fail_next_write = false;
    h.injected = 0;
    h.events.clear();
}

/// Stop counting / injecting; returns (number of injected failures, recorded calls).
fn disarm() -> (usize, Vec<Ev>) {
    let mut h = hook();
    h.armed = false;
    h.fault = Fault::None;
    h.fail_next_write = false;
    (h.injected, std::mem::take(&mut h.events))
}

/// Write the crash image (what is guaranteed to be on disk) to `to`. The length of the real file is
/// kept (space allocated by fallocate reads as zeroes).
fn dump_crash_image(real: &Path, to: &Path) {
    let mut img = hook().durable.clone();
    let len = std::fs::metadata(real).unwrap().len() as usize;
    if img.len() < len {
        img.resize(len, 0);
    }
    let _ = std::fs::remove_file(to);
    std::fs::write(to, img).unwrap();
}

// ---------------------------------------------------------------------------------------------
// Model and workload
// ---------------------------------------------------------------------------------------------

type Model = BTreeMap<Vec<u8>, BTreeMap<Vec<u8>, Vec<u8>>>;

#[derive(Clone, Debug)]
enum Op {
    Put(&'static str, String, Vec<u8>),
    Del(&'static str, String),
    DelBucket(&'static str),
}

fn val(tag: &str, i: usize, len: usize) -> Vec<u8> {
    let mut v = format!("{}-{}-", tag, i).into_bytes();
    while v.len() < len {
        v.push(b'a' + ((v.len() + i) % 26) as u8);
    }
    v
}

fn key(i: usize) -> String {
    format!("key-{:05}", i)
}

/// Apply the operations to the model and to a writable transaction (not committed here).
fn apply_ops(tx: &jammdb::Tx, model: &mut Model, ops: &[Op]) -> Result<(), Error> {
    for op in ops {
        match op {
            Op::Put(b, k, v) => {
                let bucket = tx.get_or_create_bucket(*b)?;
                bucket.put(k.clone(), v.clone())?;
                model
                    .entry(b.as_bytes().to_vec())
                    .or_default()
                    .insert(k.clone().into_bytes(), v.clone());
            }
            Op::Del(b, k) => {
                if let Some(m) = model.get_mut(b.as_bytes()) {
                    if m.remove(k.as_bytes()).is_some() {
                        tx.get_bucket(*b)?.delete(k.as_bytes())?;
                    }
                }
            }
            Op::DelBucket(b) => {
                if model.remove(b.as_bytes()).is_some() {
                    tx.delete_bucket(*b)?;
                }
            }
        }
    }
    Ok(())
}

fn read_state(db: &DB) -> Result<Model, Error> {
    let tx = db.tx(false)?;
    let mut out = Model::new();
    for (name, bucket) in tx.buckets() {
        let mut m = BTreeMap::new();
        for data in bucket.cursor() {
            match data {
                Data::KeyValue(kv) => {
                    m.insert(kv.key().to_vec(), kv.value().to_vec());
                }
                Data::Bucket(b) => {
                    return Err(Error::InvalidDB(format!(
                        "unexpected nested bucket {:?}",
                        String::from_utf8_lossy(b.name())
                    )))
                }
            }
        }
        out.insert(name.name().to_vec(), m);
    }
    Ok(out)
}

/// Contents + structural check, with panics turned into errors.
fn observe(db: &DB) -> Result<Model, String> {
    match catch_unwind(AssertUnwindSafe(|| -> Result<Model, Error> {
        db.check()?;
        read_state(db)
    })) {
        Ok(Ok(m)) => Ok(m),
        Ok(Err(e)) => Err(format!("error: {:?}", e)),
        Err(_) => Err("PANIC".to_string()),
    }
}

fn observe_file(path: &Path) -> Result<Model, String> {
    match catch_unwind(AssertUnwindSafe(|| -> Result<Model, Error> {
        let db = DB::open(path)?;
        db.check()?;
        read_state(&db)
    })) {
        Ok(Ok(m)) => Ok(m),
        Ok(Err(e)) => Err(format!("error: {:?}", e)),
        Err(_) => Err("PANIC".to_string()),
    }
}

fn which(m: &Model, pre: &Model, post: &Model) -> &'static str {
    if m == post {
        "post"
    } else if m == pre {
        "pre"
    } else {
        "NEITHER pre nor post"
    }
}

struct Dirs {
    base: PathBuf,
    trial: PathBuf,
    image: PathBuf,
}

impl Dirs {
    fn new() -> Dirs {
        let dir = std::env::temp_dir().join(format!("jammdb-seed-demo-{}", std::process::id()));
        let _ = std::fs::remove_dir_all(&dir);
        std::fs::create_dir_all(&dir).unwrap();
        Dirs {
            base: dir.join("base.db"),
            trial: dir.join("trial.db"),
            image: dir.join("image.db"),
        }
    }
}

impl Drop for Dirs {
    fn drop(&mut self) {
        clear_target();
        let _ = std::fs::remove_dir_all(self.base.parent().unwrap());
    }
}

/// A small database with several committed transactions behind it, so that it has free pages.
fn build_base(path: &Path) -> Model {
    let mut model = Model::new();
    let db = DB::open(path).unwrap();
    let txs: Vec<Vec<Op>> = vec![
        (0..120)
            .map(|i| Op::Put("alpha", key(i), val("a0", i, 40)))
            .chain((0..40).map(|i| Op::Put("beta", key(i), val("b0", i, 90))))
            .collect(),
        (0..120)
            .filter(|i| i % 3 == 0)
            .map(|i| Op::Del("alpha", key(i)))
            .chain((0..10).map(|i| Op::Put("beta", key(i), val("b1", i, 30))))
            .collect(),
        vec![Op::Put("alpha", key(500), val("a2", 500, 20))],
        vec![Op::Put("beta", key(500), val("b3", 500, 20))],
    ];
    for ops in txs {
        let tx = db.tx(true).unwrap();
        apply_ops(&tx, &mut model, &ops).unwrap();
        tx.commit().unwrap();
    }
    db.check().unwrap();
    assert_eq!(read_state(&db).unwrap(), model);
    model
}

/// Transaction that fits into the existing file.
fn ops_in_place() -> Vec<Op> {
    (0..30)
        .map(|i| Op::Put("alpha", key(i * 2), val("A", i, 70)))
        .chain((20..30).map(|i| Op::Del("beta", key(i))))
        .chain((0..5).map(|i| Op::Put("gamma", key(i), val("G", i, 50))))
        .collect()
}

/// Transaction that needs more pages than the file has (the file is 32 pages to begin with).
fn ops_growing() -> Vec<Op> {
    (0..12)
        .map(|i| Op::Put("big", key(i), val("B", i, 20_000)))
        .chain((0..10).map(|i| Op::Put("alpha", key(i), val("A", i, 70))))
        .collect()
}

fn follow_ups() -> Vec<Vec<Op>> {
    vec![
        (0..25)
            .map(|i| Op::Put("alpha", key(1000 + i), val("f1", i, 60)))
            .chain((0..5).map(|i| Op::Del("beta", key(i))))
            .collect(),
        std::iter::once(Op::DelBucket("gamma"))
            .chain((0..30).map(|i| Op::Put("delta", key(i), val("f2", i, 120))))
            .chain((0..3).map(|i| Op::Del("big", key(i))))
            .collect(),
        (0..40)
            .map(|i| Op::Put("alpha", key(i), val("f3", i, 150)))
            .chain((0..10).map(|i| Op::Del("delta", key(i * 2))))
            .collect(),
    ]
}

fn describe(events: &[Ev]) -> String {
    events
        .iter()
        .map(|e| match (e.kind, e.ret) {
            (Kind::Write, -1) => format!("write@{}+{}=EIO", e.off, e.len),
            (Kind::Write, r) if r as usize != e.len => format!("write@{}+{}=short{}", e.off, e.len, r),
            (Kind::Write, _) => format!("write@{}+{}", e.off, e.len),
            (Kind::Sync, -1) => "fsync=EIO".to_string(),
            (Kind::Sync, _) => "fsync".to_string(),
        })
        .collect::<Vec<_>>()
        .join(" ")
}

/// What has to hold of the recorded calls when commit returned Ok.
fn check_ok_trace(events: &[Ev], pagesize: u64) -> Result<(), String> {
    if let Some(bad) = events.iter().find(|e| e.ret < 0) {
        return Err(format!("commit returned Ok although a call failed: {:?}", bad));
    }
    let meta_idx = events
        .iter()
        .rposition(|e| e.kind == Kind::Write && (e.off == 0 || e.off == pagesize) && e.len as u64 == pagesize)
        .ok_or("no meta page write")?;
    if !events[..meta_idx].iter().any(|e| e.kind == Kind::Write) {
        return Err("no data page write before the meta page write".into());
    }
    let last_data = events[..meta_idx].iter().rposition(|e| e.kind == Kind::Write).unwrap();
    if !events[last_data..meta_idx].iter().any(|e| e.kind == Kind::Sync && e.ret == 0) {
        return Err("no successful sync between the data pages and the meta page".into());
    }
    if !events[meta_idx..].iter().any(|e| e.kind == Kind::Sync && e.ret == 0) {
        return Err("no successful sync after the meta page".into());
    }
    Ok(())
}

/// One trial: fresh copy of the base database, transaction `ops`, commit under `fault`, then the
/// follow-up transactions and a reopen. Returns the recorded calls of the commit and the list of
/// violations.
fn trial(dirs: &Dirs, pre: &Model, ops: &[Op], fault: Fault) -> (Vec<Ev>, Vec<String>) {
    let mut bad: Vec<String> = Vec::new();
    clear_target();
    let _ = std::fs::remove_file(&dirs.trial);
    std::fs::copy(&dirs.base, &dirs.trial).unwrap();
    set_target(&dirs.trial);

    let mut post = pre.clone();
    let events;
    let mut model;
    {
        let db = DB::open(&dirs.trial).unwrap();
        let pagesize = db.pagesize();
        assert_eq!(&read_state(&db).unwrap(), pre);

        // --- the commit under test ---
        let tx = db.tx(true).unwrap();
        apply_ops(&tx, &mut post, ops).unwrap();
        assert_ne!(pre, &post);
        arm(fault);
        let res = catch_unwind(AssertUnwindSafe(move || tx.commit()));
        let (injected, evs) = disarm();
        events = evs;

        let committed_ok = match &res {
            Err(_) => {
                bad.push("commit PANICKED".into());
                false
            }
            Ok(r) => r.is_ok(),
        };
        match fault {
            Fault::None => {
                if !committed_ok {
                    bad.push(format!("commit without a fault failed: {:?}", res));
                }
                assert_eq!(injected, 0);
            }
            Fault::Fail(_) => {
                if injected != 1 {
                    bad.push(format!("hook not hit: {} injected failures, expected 1", injected));
                }
            }
            Fault::Short(_) => {
                if injected != 2 {
                    bad.push(format!(
                        "hook not hit: {} injected events, expected 2 (short write + failing continuation)",
                        injected
                    ));
                }
            }
        }
        if injected > 0 && committed_ok {
            bad.push(format!(
                "commit returned Ok although an I/O call of the commit failed; calls: {}",
                describe(&events)
            ));
        }
        if committed_ok {
            if let Err(e) = check_ok_trace(&events, pagesize) {
                bad.push(format!("commit returned Ok but: {}; calls: {}", e, describe(&events)));
            }
        }

        // --- same handle: pre or post, structurally sound ---
        model = match observe(&db) {
            Ok(m) => {
                let w = which(&m, pre, &post);
                if w == "NEITHER pre nor post" || (committed_ok && w != "post") {
                    bad.push(format!("same handle after commit (ok={}): contents are {}", committed_ok, w));
                }
                m
            }
            Err(e) => {
                bad.push(format!("same handle after commit: {}", e));
                return (events, bad);
            }
        };

        // --- what a crash right now would leave behind ---
        dump_crash_image(&dirs.trial, &dirs.image);
        match observe_file(&dirs.image) {
            Ok(m) => {
                let w = which(&m, pre, &post);
                if w == "NEITHER pre nor post" || (committed_ok && w != "post") {
                    bad.push(format!(
                        "crash image after commit (ok={}): contents are {}",
                        committed_ok, w
                    ));
                }
            }
            Err(e) => bad.push(format!("crash image after commit (ok={}): {}", committed_ok, e)),
        }

        // --- further transactions on the same handle ---
        for (n, f) in follow_ups().iter().enumerate() {
            let r = catch_unwind(AssertUnwindSafe(|| -> Result<(), Error> {
                let tx = db.tx(true)?;
                apply_ops(&tx, &mut model, f)?;
                tx.commit()
            }));
            match r {
                Ok(Ok(())) => {}
                Ok(Err(e)) => {
                    bad.push(format!("follow-up tx {} failed: {:?}", n, e));
                    return (events, bad);
                }
                Err(_) => {
                    bad.push(format!("follow-up tx {} PANICKED", n));
                    return (events, bad);
                }
            }
            match observe(&db) {
                Ok(m) if m == model => {}
                Ok(_) => bad.push(format!("same handle after follow-up tx {}: wrong contents", n)),
                Err(e) => bad.push(format!("same handle after follow-up tx {}: {}", n, e)),
            }
            dump_crash_image(&dirs.trial, &dirs.image);
            match observe_file(&dirs.image) {
                Ok(m) if m == model => {}
                Ok(_) => bad.push(format!("crash image after follow-up tx {}: wrong contents", n)),
                Err(e) => bad.push(format!("crash image after follow-up tx {}: {}", n, e)),
            }
        }
    }

    // --- reopen ---
    match observe_file(&dirs.trial) {
        Ok(m) if m == model => {}
        Ok(_) => bad.push("after reopen: wrong contents".into()),
        Err(e) => bad.push(format!("after reopen: {}", e)),
    }
    clear_target();
    (events, bad)
}

/// The hook state and the file-size limit are process wide, so the tests must not overlap.
static SERIAL: Mutex<()> = Mutex::new(());

#[test]
fn commit_faults_single() {
    let _g = SERIAL.lock().unwrap_or_else(|e| e.into_inner());
    let dirs = Dirs::new();
    let pre = build_base(&dirs.base);
    let base_len = std::fs::metadata(&dirs.base).unwrap().len();

    let mut violations: Vec<String> = Vec::new();
    let mut trials = 0;
    let mut injected_write_faults = 0;
    let mut injected_sync_faults = 0;

    for (name, ops, grows) in [
        ("in-place", ops_in_place(), false),
        ("growing", ops_growing(), true),
    ] {
        // Dry run: which calls does this commit issue?
        let (calls, bad) = trial(&dirs, &pre, &ops, Fault::None);
        assert!(bad.is_empty(), "{}: the fault-free run is not clean: {:#?}", name, bad);
        let writes = calls.iter().filter(|e| e.kind == Kind::Write).count();
        let syncs = calls.iter().filter(|e| e.kind == Kind::Sync).count();
        println!("{}: commit issues {} writes and {} syncs: {}", name, writes, syncs, describe(&calls));
        assert!(writes >= 3, "{}: hooks saw only {} writes", name, writes);
        assert_eq!(syncs, 2, "{}: hooks saw {} syncs", name, syncs);
        let grew = std::fs::metadata(&dirs.trial).unwrap().len() > base_len;
        assert_eq!(grew, grows, "{}: file growth", name);

        for (i, call) in calls.iter().enumerate() {
            let mut faults = vec![Fault::Fail(i)];
            // A short write of the META page followed by an error is left out by default: the first
            // half of that page already holds the complete new header, so the new state becomes
            // visible although commit returns Err, and the shared free list is then stale. The
            // UNMODIFIED tree already breaks on that (follow-up transactions corrupt the file), so it
            // cannot tell the seeded bug apart. Set SEED_DEMO_SHORT_META=1 to include it.
            let is_meta = Some(i) == calls.iter().rposition(|e| e.kind == Kind::Write);
            if call.kind == Kind::Write && (!is_meta || std::env::var_os("SEED_DEMO_SHORT_META").is_some()) {
                faults.push(Fault::Short(i));
            }
            for fault in faults {
                if std::env::var_os("SEED_DEMO_VERBOSE").is_some() {
                    eprintln!("{} tx: {:?} ({:?})", name, fault, call);
                }
                let (evs, bad) = trial(&dirs, &pre, &ops, fault);
                trials += 1;
                match call.kind {
                    Kind::Write => injected_write_faults += 1,
                    Kind::Sync => injected_sync_faults += 1,
                }
                let failed_call = evs.iter().filter(|e| e.ret < 0).count();
                assert_eq!(failed_call, 1, "{} {:?}: expected exactly one failed call", name, fault);
                for b in bad {
                    let what = match call.kind {
                        Kind::Write => format!("write #{} (offset {}, {} bytes)", i, call.off, call.len),
                        Kind::Sync => format!(
                            "sync #{}",
                            calls[..i].iter().filter(|e| e.kind == Kind::Sync).count() + 1
                        ),
                    };
                    violations.push(format!("[{} tx, {:?} = {}] {}", name, fault, what, b));
                }
            }
        }
    }

    println!(
        "{} faulted commits ({} write faults, {} sync faults)",
        trials, injected_write_faults, injected_sync_faults
    );
    assert!(injected_write_faults >= 6 && injected_sync_faults == 4);
    assert!(
        violations.is_empty(),
        "{} violations of C11:\n{}",
        violations.len(),
        violations.join("\n")
    );
}

/// File extension failing: a file-size limit makes fallocate (and any write past the limit) fail.
#[test]
fn commit_fault_extension() {
    // The file-size limit is process wide: do not run concurrently with the other test.
    let _g = SERIAL.lock().unwrap_or_else(|e| e.into_inner());

    let dir = std::env::temp_dir().join(format!("jammdb-seed-demo-ext-{}", std::process::id()));
    let _ = std::fs::remove_dir_all(&dir);
    std::fs::create_dir_all(&dir).unwrap();
    let path = dir.join("ext.db");
    let pre = build_base(&path);
    let len = std::fs::metadata(&path).unwrap().len();

    let db = DB::open(&path).unwrap();
    let mut post = pre.clone();
    let tx = db.tx(true).unwrap();
    apply_ops(&tx, &mut post, &ops_growing()).unwrap();

    let mut old: libc::rlimit = unsafe { std::mem::zeroed() };
    unsafe {
        libc::signal(libc::SIGXFSZ, libc::SIG_IGN);
        assert_eq!(libc::getrlimit(libc::RLIMIT_FSIZE, &mut old), 0);
        let new = libc::rlimit { rlim_cur: len, rlim_max: old.rlim_max };
        assert_eq!(libc::setrlimit(libc::RLIMIT_FSIZE, &new), 0);
    }
    let res = catch_unwind(AssertUnwindSafe(move || tx.commit()));
    unsafe {
        assert_eq!(libc::setrlimit(libc::RLIMIT_FSIZE, &old), 0);
    }
    let res = res.expect("commit panicked when the file could not be extended");
    assert!(res.is_err(), "commit returned Ok although the file could not be extended");
    assert_eq!(std::fs::metadata(&path).unwrap().len(), len);

    let mut model = observe(&db).expect("same handle after failed extension");
    assert_eq!(model, pre);
    for f in follow_ups() {
        let tx = db.tx(true).unwrap();
        apply_ops(&tx, &mut model, &f).unwrap();
        tx.commit().unwrap();
        assert_eq!(observe(&db).unwrap(), model);
    }
    drop(db);
    assert_eq!(observe_file(&path).unwrap(), model);
    let _ = std::fs::remove_dir_all(&dir);
}
