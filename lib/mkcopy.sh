#!/bin/sh
# development aid: a patched copy of /repo's src (for JV_REPO=...), never used by a registered command
# usage: mkcopy.sh <seed-id>  -> /var/tmp/rp-<id>
id=$1; V=$(cd "$(dirname "$0")/.." && pwd); D=/var/tmp/rp-$id
rm -rf $D; mkdir -p $D; cp -r /repo/src /repo/Cargo.toml $D/; cd $D && git init -q . && git add -A >/dev/null && git -c user.email=a@b -c user.name=x commit -qm base
P=$V/seeded/$id/patch.rebased.diff; [ -f $P ] || P=$V/seeded/$id/patch.diff
git apply $P && echo "copy with $id at $D"
