#!/bin/sh
# setup_cmd: offline. Builds the Kani dependency artefacts once into /verif/.cache/kani-seed
# (copied into per-run scratch target dirs), and runs the native differential tests of the
# environment models.
set -e
cd "$(dirname "$0")/.."
export CARGO_NET_OFFLINE=true
S=${VERIF_SCRATCH:-/var/tmp}/jv-setup-$$
rm -rf "$S" .cache/kani-seed
mkdir -p "$S" .cache
python3 lib/gen.py "$S/crate" >/dev/null
(cd "$S/crate" && cargo kani --target-dir "$S/seed" --only-codegen -Z stubbing >"$S/seed.log" 2>&1) || { tail -30 "$S/seed.log"; exit 1; }
# keep only dependency artefacts: drop the jammdb crate's own outputs
find "$S/seed" -name '*jammdb*' -prune -exec rm -rf {} + 2>/dev/null || true
mv "$S/seed" .cache/kani-seed
(cd env/jv_env && cargo test --offline --target-dir "$S/envt" >"$S/envtest.log" 2>&1) || { tail -40 "$S/envtest.log"; exit 1; }
grep "test result" "$S/envtest.log" | head -5
rm -rf "$S"
echo "setup ok"
