#!/usr/bin/env python3
"""(re)writes /verif/MANIFEST.json from the claims below; validated against the schema"""
import json, os
V = os.path.dirname(os.path.dirname(os.path.abspath(__file__)))
NOTE = ("Bounded: every harness states its bound in evidence samples[].bound; unwinding assertions on; everything outside the "
        "bounds is outside the claim. Trusted base: Kani 0.68/CBMC 6.11/CaDiCaL; environment models in /verif/env "
        "(fixed-capacity loop-free collections, leak-model Rc/Arc, single-thread locks, op-logging model file + mmap view, "
        "fixed-block bump allocator, exact loop-free FNV-1a with byte log and a cheap-fold switch, stand-in for SHA3); "
        "element-wise memcpy/memmove stubs; CBMC field sensitivity raised to 4200; the composition of single-step "
        "obligations into the property is a paper argument (DESIGN.md section 6), not machine-checked.")
TECH = "bounded model checking of the real Rust functions (Kani -> CBMC, SAT) over symbolic inputs / pre-states / crash cuts; counterexamples replayed natively"
claims = {
 "C01": ("single-step contracts of the storage kernels and bucket operations behind put/get/delete: binary search (pages and nodes, leaf and branch), insert/replace/delete in a materialised leaf, node->page encoding decoded by an independent reference reader, and InnerBucket::{get, put, delete, get_bucket, create_bucket, delete_bucket} as single steps on hand-laid one-leaf trees (return value / error kind, counter, read-your-write). Histories, multi-level rebalance/spill and reopen are outside.", "6/C01"),
 "C02": ("the commit I/O sequence of the real Tx::commit / write_data over an op-logging disk model: write plan (each dirty page once at id*pagesize, free-list page = free+pending, header to the other slot, valid, sync before and after the header), every process-kill prefix, and power loss (any subset of unsynced writes, header torn at any 8-byte word mask) judged by the real DBInner::meta on the synthesised image: previous or new state, never a mix. One fixed small transaction shape; histories and growth are outside.", "6/C02"),
 "C03": ("the steps that protect reader snapshots: Freelist::release(x) for all ids/bounds; Tx::new(writer) releases with bound = oldest open reader (or committed+1) for all reader lists of 2 ids; Tx::new(reader) registers the committed id and changes nothing else; drop removes exactly one registration (duplicates kept); header selection picks the newest valid header.", "6/C03"),
 "C05": ("page accounting steps: contiguous-run allocation, TxFreelist::allocate/free for every (bytes, pagesize), pages() = sorted duplicate-free union, write_node inside Node::size(), a node frees its old run once, delete_bucket frees every reachable run (overflow runs, branch/leaf/nested bucket) exactly once. Whole-file well-formedness after histories is outside.", "6/C05"),
 "C06": ("read-only guards of every mutator (Tx and Bucket level) return ReadOnlyTx before touching anything; a writer that frees/allocates and is dropped leaves the shared free list, reader list, header and file op log untouched; open() and begin write nothing; failing bucket calls change nothing.", "6/C06"),
 "C07": ("in-transaction reads through the node overlay: put / delete / create_bucket as single symbolic steps with the materialised leaf inspected afterwards, point lookups, a concrete delete-then-scan scenario, the scan over a tree whose first leaf is shadowed by an emptied node (constructed state, symbolic keys), and the first item of Tx::buckets() after a creation. Scans after puts and two-leaf overlay scenarios do not finish symbolic execution (parked, run natively only); seek/range over overlays and deeper trees are outside.", "6/C07"),
 "C08": ("binary-search contract (slot, exact) on pages and nodes; full cursor scans over an empty bucket, one leaf and a branch over two leaves incl. repeated next() after the end; seek for every key on a 3-key leaf; range scans for all 9 combinations of bound kinds with symbolic bound keys on a 3-key leaf.", "6/C08"),
 "C10": ("the reuse mechanisms: allocate finds a run whenever one exists, release frees every list older than the bound and writer begin passes the right bound, TxFreelist::allocate asks the free set before extending the file, commit persists free+pending and open() reloads the free list of the newest header.", "6/C10"),
 "C11": ("every fallible file call of the commit failing in turn (12 concrete fault plans incl. short writes): commit returns Err(Io) without panicking, the writer lock is released, pages in use are untouched, the file shows exactly the pre- or the post-transaction header and the handle's in-memory free list is coherent with it. Further histories after the fault and RLIMIT-style extension failures are outside.", "6/C11"),
 "C12": ("header validity and selection: checksum covers exactly the nine fields (byte log of the hasher), real fnv step = FNV-1a formula, one-step injectivity (z3+cvc5), and the real DBInner::meta() under every single-byte damage (any offset 0..104, any wrong value, either slot, either age) returns the intact header's state without panicking.", "6/C12"),
 "C15": ("layout conformance of every reader and writer primitive against constants written down independently of the code: struct offsets, leaf/branch/free-list/header accessors over a fully symbolic page, write_node output, init_file image, bucket header codec, legacy header serialisation and conversion, page-size mismatch refused. Golden files opening as a whole is outside.", "6/C15"),
 "C16": ("arithmetic kernels with the page size symbolic: ceil-division and run placement in TxFreelist::allocate for all (bytes, pagesize), merge threshold, alignment of page views for every page size the builder accepts, builder stores options as given, init_file for any initial page count.", "6/C16"),
}
na = [
 ("C04", "thread interleavings of reader/writer begin and commit: Kani/CBMC executes no threads and cannot suspend a real function mid-body; only a hand model would be checkable, which is not checking of the code"),
 ("C09", "writer serialisation / lost updates / deadlock freedom across threads: no thread support in the engine; the sequential residue is an ownership fact and a lock-order question, not a solver query"),
 ("C13", "exclusion between OS processes rests on flock and process scheduling, which are not code of this crate; the one encodable call-order fact does not decide the property"),
 ("C14", "rejection of escaping borrows is decided by rustc's type checker, not by a solver over the code; the run-time half needs whole-program symbolic runs and a freeing pointer model, both out of reach"),
]
checks = []
for pid, (text, ref) in sorted(claims.items()):
    checks.append({"property_id": pid, "quick_cmd": "./check %s --tier quick" % pid, "thorough_cmd": "./check %s --tier thorough" % pid,
                   "evidence_file": "/verif/evidence/%s.json" % pid, "replay_cmd_template": "./check %s --replay {path}" % pid,
                   "engine": "kani-cbmc", "level_claimed": {"category": "model_checking", "text": text, "design_ref": "DESIGN.md section " + ref},
                   "level_note": NOTE, "technique": TECH + ("; SMT (z3+cvc5) for the FNV step lemmas" if pid == "C12" else "")})
m = {"version": 1, "setup_cmd": "./lib/setup.sh",
     "hooks": {"guard": "jammdb_verif", "enable": "none needed: checks copy /repo/src into a scratch crate (use-redirection of imports only) and mount harness modules there; no source hooks exist in /repo",
               "baseline_off_cmd": "cd /repo && cargo test --workspace --no-fail-fast --offline", "source_commits": [], "add_only": True},
     "engines": [{"name": "kani-cbmc", "path": "/verif/lib/run.py", "serves_properties": sorted(claims),
                  "kind_free_text": "Kani 0.68.0 proof harnesses over the real functions (scratch crate regenerated from /repo/src on every run), CBMC 6.11 + CaDiCaL, unwinding assertions on, cover witnesses against vacuity, native replay of counterexamples"},
                 {"name": "smt-fnv", "path": "/verif/smt/fnv_lemmas.py", "serves_properties": ["C12"],
                  "kind_free_text": "SMT-LIB one-step injectivity lemmas for FNV-1a with constants read from the fnv crate source; z3 and cvc5 must both say unsat"}],
     "checks": checks, "not_applicable": [{"property_id": a, "reason": b} for a, b in na],
     "notes": "See DESIGN.md. Exit codes of ./check: 0 held / known findings only; 1 VIOLATION (natively replayed); 2 inconclusive (timeout, OOM, vacuity, non-reproducing counterexample) - never success."}
json.dump(m, open(os.path.join(V, "MANIFEST.json"), "w"), indent=1)
print("wrote MANIFEST.json with", len(checks), "checks")
