#!/usr/bin/env python3
"""Development aid (not part of any verdict): run harnesses as ordinary code against env/kani_native for a
few hundred seeded value draws each. A harness that fails here on the unchanged tree has a harness bug (or
found a real defect) -- seconds instead of the minutes a CBMC run takes.
usage: native_smoke.py [harness-name-substring] [runs]"""
import os, sys, time
sys.path.insert(0, os.path.dirname(os.path.abspath(__file__)))
import run

def main():
    pat = sys.argv[1] if len(sys.argv) > 1 else ""
    runs = int(sys.argv[2]) if len(sys.argv) > 2 else 200
    reg = [o for o in run.parse_registry() if pat in o["name"] and o.get("profile", "model") == "model" and "PROBE" not in o["props"]]
    sc = run.Scratch("smoke")
    logdir = os.path.join(run.VERIF, "logs", "smoke")
    os.makedirs(logdir, exist_ok=True)
    try:
        exe = run.native_exe(sc, logdir)
        if not exe:
            print("native build failed, see", logdir); return 2
        bad = 0
        for o in reg:
            t0 = time.time(); stats = {"pass": 0, "assume": 0, "fail": 0, "timeout": 0}; first = None
            for seed in range(runs):
                kind, values, msg = run.native_run(exe, o["name"], seed, timeout=30)
                stats[kind] = stats.get(kind, 0) + 1
                if kind == "fail" and any(a and a in msg for a in o.get("allow", "").split("|")):
                    kind = "pass"; stats["fail"] -= 1; stats["pass"] += 1
                if kind == "fail" and first is None:
                    first = (seed, msg)
                if time.time() - t0 > 20:
                    break
            note = ""
            if first and o.get("native", "yes") != "no":
                bad += 1; note = "  <-- FAIL seed=%d %s" % (first[0], first[1][:160].replace("\n", " | "))
            elif first:
                note = "  (fails natively as expected: stubbed harness)"
            print("%-44s pass=%-4d assume=%-4d fail=%-3d%s" % (o["name"], stats["pass"], stats["assume"], stats["fail"], note))
        return 1 if bad else 0
    finally:
        sc.cleanup()

if __name__ == "__main__":
    sys.exit(main())
