#!/bin/sh
# apply a seeded change to /repo, run checks, always undo it
# usage: try_seed.sh <seeded/id> <check args...>
S=$1; shift
cd /repo && git diff --quiet || { echo "/repo has uncommitted changes"; exit 2; }
P="$S/patch.diff"; [ -f "$S/patch.rebased.diff" ] && P="$S/patch.rebased.diff"
git -C /repo apply "$P" || { echo "patch does not apply"; exit 2; }
cd /verif && ./check "$@" --no-evidence; rc=$?
git -C /repo checkout -- .
echo "try_seed exit=$rc"
