#!/usr/bin/env python3
"""Scratch-crate generator (DESIGN.md section 2).

Copies /repo/src/*.rs into a scratch crate, redirects selected `use std::...` imports to
the environment models in /verif/env (only `use` declarations are rewritten; a sanity
check proves that no other token changed), points memmap2/fs4/bytes/bumpalo at the model
crates, and mounts /verif/harness/<module>.rs as a child module `jv` of src/<module>.rs
(so harnesses reach module-private items without editing the repository).
"""
import os
import re
import shutil
import sys

VERIF = os.path.dirname(os.path.dirname(os.path.abspath(__file__)))
REPO = os.environ.get("JV_REPO", "/repo")

# std path -> model path
REDIRECT = {
    "std::fs::File": "jv_env::File",
    "std::fs::OpenOptions": "jv_env::OpenOptions",
    "std::collections::HashMap": "jv_env::HashMap",
    "std::collections::HashSet": "jv_env::HashSet",
    "std::collections::BTreeMap": "jv_env::BTreeMap",
    "std::collections::BTreeSet": "jv_env::BTreeSet",
    "std::rc::Rc": "jv_env::Rc",
    "std::sync::Arc": "jv_env::Arc",
    "std::sync::Mutex": "jv_env::Mutex",
    "std::sync::RwLock": "jv_env::RwLock",
    "std::sync::MutexGuard": "jv_env::MutexGuard",
    "std::sync::RwLockReadGuard": "jv_env::RwLockReadGuard",
    "std::sync::RwLockWriteGuard": "jv_env::RwLockWriteGuard",
}

USE_RE = re.compile(r"(?m)^([ \t]*)((?:pub(?:\([a-z]+\))?\s+)?)use\s+(std::[^;]*);")


def _tokens(s):
    return re.findall(r"::|[{},*]|[A-Za-z_][A-Za-z0-9_]*", s)


def _parse_tree(toks, i, prefix, out):
    """use-tree := path [ '::' ( '{' tree,* '}' | '*' ) ] [ 'as' ident ]"""
    path = list(prefix)
    while True:
        t = toks[i]
        if t == "{":
            i += 1
            while toks[i] != "}":
                i = _parse_tree(toks, i, path, out)
                if toks[i] == ",":
                    i += 1
            return i + 1
        if t == "*":
            out.append((path + ["*"], None))
            return i + 1
        path.append(t)
        i += 1
        if i < len(toks) and toks[i] == "::":
            i += 1
            continue
        alias = None
        if i < len(toks) and toks[i] == "as":
            alias = toks[i + 1]
            i += 2
        if path[-1] == "self":
            path = path[:-1]
            out.append((path, alias or None))
        else:
            out.append((path, alias))
        return i


def flatten_use(tree_src):
    toks = _tokens(tree_src)
    out = []
    i = _parse_tree(toks, 0, [], out)
    assert i == len(toks), (tree_src, toks[i:])
    return out


def rewrite_uses(src, log):
    def repl(m):
        indent, vis, tree = m.group(1), m.group(2), m.group(3)
        leaves = flatten_use(tree)
        lines = []
        for path, alias in leaves:
            p = "::".join(path)
            name = alias or path[-1]
            if p in REDIRECT:
                log.append((p, REDIRECT[p]))
                tgt = REDIRECT[p]
                lines.append("%s%suse %s%s;" % (indent, vis, tgt, "" if tgt.split("::")[-1] == name else " as " + name))
            else:
                lines.append("%s%suse %s%s;" % (indent, vis, p, " as " + alias if alias else ""))
        # keep the line count of the original declaration so diagnostics keep their line numbers
        return " ".join(l.strip() if i else l for i, l in enumerate(lines)) + "\n" * m.group(0).count("\n")

    return USE_RE.sub(repl, src)


def strip_uses(src):
    """remove every `use ...;` declaration and all whitespace (for the body-unchanged check)"""
    s = re.sub(r"(?m)(?:^|(?<=;))[ \t]*(?:pub(?:\([a-z]+\))?\s+)?use\s+[^;]*;", "", src)
    return re.sub(r"\s+", "", s)


STUB_ATTRS = (
    "#[kani::stub(core::ptr::copy_nonoverlapping, crate::jv_top_stubs::copy_nonoverlapping)]\n"
    "#[kani::stub(core::ptr::copy, crate::jv_top_stubs::copy)]\n"
    "#[kani::stub(alloc::fmt::format, crate::jv_top_stubs::fmt_format)]\n"
)


HARNESS_FN_RE = re.compile(r"(?m)^[ \t]*//[ \t]*@ob[^\n]*\n(?:[ \t]*(?://[^\n]*|#\[[^\n]*\])\n)*[ \t]*(?:(?:pub\s+)?fn\s+([A-Za-z0-9_]+)\s*\(|[a-z_]+_harness!\(\s*([A-Za-z0-9_]+)\s*,)")


def _copy_harness(src, dst, profile="model"):
    """copy a harness file, attaching the global memcpy/memmove stubs to every proof harness;
    for the native replay profile append a name -> harness dispatcher instead"""
    t = open(src).read()
    if profile != "native":
        def _inject(m):
            # a harness may bring its own replacement for one of the globally stubbed functions (attribute lines
            # directly after #[kani::proof]): that global stub is then left out for it
            follow = re.match(r"(?:[ \t]*#\[[^\n]*\]\n)*", t[m.end():]).group(0)
            keep = [l for l in STUB_ATTRS.splitlines(True) if l.split("(", 1)[1].split(",", 1)[0] + "," not in follow]
            return m.group(0) + "".join(keep)
        t = re.sub(r"(?m)^([ \t]*)#\[kani::proof\]\n", _inject, t)
    else:
        names = []
        for m in HARNESS_FN_RE.finditer(t):
            seg = t[m.start():m.end()]
            if 'feature = "jv_real")]' in seg and "not(feature" not in seg:
                continue
            names.append(m.group(1) or m.group(2))
        arms = "".join('        "%s" => {\n            %s();\n            true\n        }\n' % (n, n) for n in names)
        t += "\n#[allow(dead_code)]\npub(crate) fn jv_dispatch(name: &str) -> bool {\n    match name {\n%s        _ => false,\n    }\n}\n" % arms
    open(dst, "w").write(t)


NATIVE_MAIN = """
#[cfg(all(kani, test))]
mod jv_native_replay {
    #[test]
    fn replay() {
        let name = std::env::var("JV_HARNESS").expect("JV_HARNESS");
        let seed: u64 = std::env::var("JV_SEED").ok().and_then(|s| s.parse().ok()).unwrap_or(0);
        kani::jv_seed(seed);
        let r = std::panic::catch_unwind(std::panic::AssertUnwindSafe(|| {
            let mut found = false;
%s            assert!(found, "JV-NO-SUCH-HARNESS");
        }));
        match r {
            Ok(()) => println!("JV-RESULT pass"),
            Err(e) => {
                if e.is::<kani::AssumeFailed>() {
                    println!("JV-RESULT assume");
                } else {
                    println!("JV-RESULT fail values={:?}", kani::jv_log());
                    std::process::exit(9);
                }
            }
        }
    }
}
"""

CARGO_TOML = """[package]
name = "jammdb"
version = "0.11.0"
edition = "2021"

[workspace]

[lib]
doctest = false

[dependencies]
libc = "0.2.149"
page_size = "0.6.0"
{fnv}
sha3 = {{ path = "{env}/sha3" }}
jv_env = {{ path = "{env}/jv_env"{jvfeat} }}
memmap2 = {{ path = "{env}/memmap2" }}
fs4 = {{ path = "{env}/fs4" }}
bytes = {{ path = "{env}/bytes" }}
bumpalo = {{ path = "{env}/bumpalo" }}

[features]
default = [{feat}]
jv_real = []

[lints.rust]
unexpected_cfgs = {{ level = "allow" }}
unused_imports = "allow"
dead_code = "allow"

[profile.dev]
debug = 1
"""


# Layout pins. rustc stores the discriminant of `Leaf` (and of `Data`) in the niche of the first field's own tag, so
# the two variants put their fields at DIFFERENT offsets (a slice length of one variant overlays a pointer of the
# other). CBMC keeps a union value through its first widest member and derives the other members from it; a length
# that passed through a pointer-typed slot comes back as `(size_t)(u8*)2`, which symbolic execution does not fold
# to a constant: every size- or length-driven decision in the code under test then forks (measured: Node::split on a
# 6-entry leaf with concrete sizes: 612 k steps, out of memory; with the pin the same sizes are constants).
# `#[repr(u64)]` gives both variants an explicit tag and aligned fields. The attribute changes the in-memory layout
# of two enums that are never transmuted, measured with size_of, or stored on disk; no function body is touched.
# If a declaration is not found exactly once (renamed by a change under test) the pin is skipped, nothing fails.
LAYOUT_PINS = [
    ("node.rs", "pub(crate) enum Leaf<"),
    ("data.rs", "pub enum Data<"),
]

# Declaration order of the two variants of `Leaf` (two adjacent lines swapped, nothing else): CBMC resolves a pointer
# into a union by offset and takes the FIRST member that fits; both variants start with a `Bytes`, so every key of a
# key/value entry stored in a Vec was read through the `Bucket` member of a value written through `Kv`, an expression
# symbolic execution does not fold either. With `Kv` declared first the common case (key/value entries) folds.
# Variant order is unobservable for this enum (derives Clone only, no casts, no ordering).
VARIANT_ORDER = [
    ("node.rs", "    Bucket(Bytes<'a>, BucketMeta),\n", "    Kv(Bytes<'a>, Bytes<'a>),\n"),
]


def generate(out, harness_dir=None, repo=REPO, quiet=False, profile="model"):
    harness_dir = harness_dir or os.environ.get("JV_HARNESS_DIR") or os.path.join(VERIF, "harness")
    src_in = os.path.join(repo, "src")
    src_out = os.path.join(out, "src")
    os.makedirs(src_out, exist_ok=True)
    jv_out = os.path.join(src_out, "jv")
    shutil.rmtree(src_out)
    os.makedirs(jv_out)
    report = {"files": [], "redirects": {}, "harness_modules": []}
    for f in sorted(os.listdir(src_in), key=lambda x: (x == "lib.rs", x)):
        if not f.endswith(".rs"):
            continue
        orig = open(os.path.join(src_in, f)).read()
        log = []
        new = rewrite_uses(orig, log)
        if strip_uses(orig) != strip_uses(new):
            raise SystemExit("INFRA: use-redirection changed a non-use token in %s" % f)
        mod = f[:-3]
        # layout pins (see LAYOUT_PINS): an attribute in front of the `enum` keyword, same line, nothing else touched
        if os.environ.get("JV_NO_LAYOUT_PINS") != "1":
            for pf, decl in LAYOUT_PINS:
                if pf == f and new.count(decl) == 1 and "repr(" not in new[max(0, new.index(decl) - 200):new.index(decl)].split("}")[-1]:
                    new = new.replace(decl, "#[repr(u64)] " + decl)
                    report.setdefault("layout_pins", []).append("%s: %s" % (f, decl.strip()))
            for pf, a, b in VARIANT_ORDER:
                if pf == f and new.count(a + b) == 1 and os.environ.get("JV_NO_VARIANT_ORDER") != "1":
                    new = new.replace(a + b, b + a)
                    report.setdefault("layout_pins", []).append("%s: variant order %s <-> %s" % (f, a.strip(), b.strip()))
        h = os.path.join(harness_dir, f)
        if mod != "lib" and os.path.exists(h):
            _copy_harness(h, os.path.join(jv_out, f), profile)
            new += '\n#[cfg(kani)]\n#[path = "jv/%s"]\npub(crate) mod jv;\n' % f
            report["harness_modules"].append(mod)
        if mod == "lib":
            for t in sorted(os.listdir(harness_dir)):
                if t.startswith("top_") and t.endswith(".rs"):
                    _copy_harness(os.path.join(harness_dir, t), os.path.join(jv_out, t), profile)
                    new += '\n#[cfg(kani)]\n#[path = "jv/%s"]\npub mod jv_%s;\n' % (t, t[:-3])
                    report["harness_modules"].append(t[:-3])
        if profile == "native":
            # the replay build sets cfg(test): disable the repository's own unit-test modules in this derived copy
            new = new.replace("#[cfg(test)]", "#[cfg(jv_never)]")
            if mod == "lib":
                mods = list(report["harness_modules"])
                calls = "".join("            found |= crate::%s::jv_dispatch(&name);\n" % (("jv_" + m) if m.startswith("top_") else (m + "::jv")) for m in mods if m != "top_stubs")
                new += NATIVE_MAIN % calls
        open(os.path.join(src_out, f), "w").write(new)
        report["files"].append(f)
        if log:
            report["redirects"][f] = sorted(set(a for a, _ in log))
    env = os.path.join(VERIF, "env")
    fnv = 'fnv = "1.0.7"' if profile == "real" else 'fnv = { path = "%s/fnv" }' % env
    if profile == "native":
        fnv += '\nkani = { path = "%s/kani_native" }' % env
    open(os.path.join(out, "Cargo.toml"), "w").write(CARGO_TOML.format(env=env, fnv=fnv, feat=('"jv_real"' if profile == "real" else ""), jvfeat=(', features = ["set32"]' if profile == "set32" else "")))
    report["profile"] = profile
    lock = os.path.join(VERIF, "lib", "Cargo.lock.%s" % profile)
    if profile in ("native", "set32"):
        lock = os.path.join(VERIF, "lib", "Cargo.lock.none")
    if os.path.exists(lock):
        shutil.copy(lock, os.path.join(out, "Cargo.lock"))
    if not quiet:
        print("generated scratch crate in %s: %d files, redirects in %s, harness modules %s"
              % (out, len(report["files"]), sorted(report["redirects"]), report["harness_modules"]))
    return report


if __name__ == "__main__":
    generate(sys.argv[1], profile=(sys.argv[2] if len(sys.argv) > 2 else "model"))
