#!/bin/sh
# verify a sub-agent's seeded change in its scratch worktree: suite passes with it, demo fails with it, demo passes without it
# usage: verify_seed.sh <worktree>
D=$1; export CARGO_TARGET_DIR=$D/target; cd $D || exit 2
[ -f SEED/patch.diff ] || { echo "no SEED/patch.diff"; exit 2; }
git checkout -q -- src 2>/dev/null; rm -f tests/seed_demo.rs
git apply SEED/patch.diff || { echo "patch does not apply"; exit 2; }
echo "--- suite with change"; cargo test --offline 2>&1 | grep -a "test result" | awk '{p+=$4; f+=$6} END {print "passed",p,"failed",f}'
cp SEED/seed_demo.rs tests/seed_demo.rs
echo "--- demo with change"; cargo test --offline --test seed_demo 2>&1 | grep -a "test result"
git checkout -q -- src
echo "--- demo without change"; cargo test --offline --test seed_demo 2>&1 | grep -a "test result"
rm -f tests/seed_demo.rs
