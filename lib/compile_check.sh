#!/bin/sh
# quick: do all harness files compile under Kani? (run before committing harness edits)
S=${VERIF_SCRATCH:-/var/tmp}/jv-cc-$$; rm -rf $S
python3 "$(dirname "$0")/gen.py" $S ${1:-model} >/dev/null && (cd $S && CARGO_NET_OFFLINE=true cargo kani --only-codegen -Z stubbing --target-dir $S/t 2>&1 | grep -a "^error" -A8 | head -60)
rm -rf $S
# native (playback) build must compile too: assertion messages are format strings there
if grep -n '"[^"]*[{}][^"]*"' "$(dirname "$0")"/../harness/*.rs | grep -q "assert!\|cover!"; then echo "WARNING: brace in an assertion message (breaks the native replay build)"; fi
