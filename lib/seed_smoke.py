#!/usr/bin/env python3
"""development aid: for every seeded change, apply it to /repo, run ALL harnesses natively (env/kani_native) for
N seeds, list the harnesses that fail, undo the change. Shows within a minute which harness logic can catch which
seed (CBMC then has to decide it). Not part of any verdict."""
import os, subprocess, sys, json
sys.path.insert(0, os.path.dirname(os.path.abspath(__file__)))
import run
V = run.VERIF
seeds = sorted(d for d in os.listdir(os.path.join(V, "seeded")) if os.path.exists(os.path.join(V, "seeded", d, "patch.diff")))
if len(sys.argv) > 1:
    seeds = [s for s in seeds if s in sys.argv[1:]]
N = 120
reg = [o for o in run.parse_registry() if o.get("profile", "model") == "model" and "PROBE" not in o["props"] and o.get("native", "yes") != "no"]
for s in seeds:
    if subprocess.run(["git", "-C", "/repo", "diff", "--quiet"]).returncode != 0:
        print("/repo dirty"); sys.exit(2)
    p = os.path.join(V, "seeded", s, "patch.rebased.diff")
    if not os.path.exists(p):
        p = os.path.join(V, "seeded", s, "patch.diff")
    if subprocess.run(["git", "-C", "/repo", "apply", p]).returncode != 0:
        print("%-6s patch does not apply to the current tree" % s); continue
    sc = run.Scratch("seedsmoke")
    try:
        logdir = os.path.join(V, "logs", "seedsmoke"); os.makedirs(logdir, exist_ok=True)
        exe = run.native_exe(sc, logdir)
        hits = []
        if not exe:
            print("%-6s native build failed" % s)
        else:
            for o in reg:
                allow = [a for a in o.get("allow", "").split("|") if a]
                for seed in range(N):
                    kind, values, msg = run.native_run(exe, o["name"], seed, timeout=20)
                    if kind == "fail" and not any(a in msg for a in allow):
                        hits.append(o["name"]); break
            print("%-6s caught natively by: %s" % (s, ", ".join(hits) if hits else "-- nothing --"))
    finally:
        sc.cleanup()
        subprocess.run(["git", "-C", "/repo", "checkout", "--", "."])
