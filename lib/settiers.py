#!/usr/bin/env python3
"""set tier / cap / mem of named harnesses in /verif/harness/*.rs (@ob lines); usage: edit TABLE below and run"""
import re, os, sys
V = os.path.dirname(os.path.dirname(os.path.abspath(__file__)))
TABLE = {
    # name: (tier, cap, mem or None)
    "range_included_included": ("thorough", 1500, 16), "range_included_excluded": ("thorough", 1500, 16),
    "range_excluded_excluded": ("thorough", 1500, 16), "range_excluded_unbounded": ("thorough", 1500, 16),
    "range_included_unbounded": ("quick", 800, 16), "range_excluded_included": ("quick", 800, 16),
    "range_unbounded_included": ("quick", 400, None), "range_unbounded_excluded": ("quick", 400, None), "range_unbounded_unbounded": ("quick", 400, None),
    "bucket_put_new_between": ("thorough", 900, 8), "bucket_put_over_second": ("thorough", 900, 8), "bucket_put_new_above": ("thorough", 900, 8), "bucket_create_step": ("quick", 700, 8), "bucket_delete_first": ("quick", 700, 6), "bucket_put_new_below": ("thorough", 900, 8), "bucket_put_over_first": ("quick", 700, 8),
    "bucket_delete_second": ("thorough", 900, None),
    "cursor_seek_single_leaf": ("thorough", 1200, 10),
    "tx_commit_write_plan": ("quick", 800, 10), "tx_commit_power_loss": ("quick", 850, 10), "tx_commit_cow_freed_page_not_reused": ("quick", 800, 10),
    "tx_commit_growth_two_steps": ("quick", 700, 10), "tx_commit_strict_mode_accepts": ("quick", 850, 10),
    "tx_commit_fault_06_sync": ("quick", 700, 10), "tx_commit_fault_08_short": ("quick", 700, 10), "tx_commit_fault_10_sync": ("quick", 700, 10),
    "tx_abandoned_writer_no_trace": ("quick", 800, 8), "tx_buckets_lists_own_creation": ("quick", 800, 10),
    "db_open_reloads_long_freelist": ("quick", 600, 6),
}
def main():
    for f in os.listdir(os.path.join(V, "harness")):
        if not f.endswith(".rs"): continue
        p = os.path.join(V, "harness", f); s = open(p).read(); lines = s.split("\n"); changed = False
        for i, l in enumerate(lines):
            m = re.match(r"^\s*(?:(?:pub\s+)?fn\s+([A-Za-z0-9_]+)\s*\(|[a-z_]+_harness!\(\s*([A-Za-z0-9_]+)\s*,)", l)
            if not m: continue
            name = m.group(1) or m.group(2)
            if name not in TABLE: continue
            j = i
            while j >= 0 and "// @ob" not in lines[j]: j -= 1
            if j < 0: continue
            tier, cap, mem = TABLE[name]
            o = lines[j]
            o = re.sub(r"tier=\w+", "tier=" + tier, o)
            o = re.sub(r"cap=\d+", "cap=%d" % cap, o)
            o = re.sub(r" mem=\d+", "", o)
            if mem: o = o.replace(" fns=", " mem=%d fns=" % mem, 1)
            if o != lines[j]: lines[j] = o; changed = True
        if changed: open(p, "w").write("\n".join(lines))
main()
