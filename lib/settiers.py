#!/usr/bin/env python3
"""set tier / cap / mem of named harnesses in /verif/harness/*.rs (@ob lines); usage: edit TABLE below and run"""
import re, os, sys
V = os.path.dirname(os.path.dirname(os.path.abspath(__file__)))
TABLE = {
    # name: (tier, cap, mem or None)
    "range_included_included": ("thorough", 1500, 16), "range_included_excluded": ("thorough", 1500, 16),
    "range_excluded_excluded": ("thorough", 1500, 16), "range_excluded_unbounded": ("thorough", 1500, 16),
    "range_included_unbounded": ("quick", 800, 16), "range_excluded_included": ("quick", 800, 16),
    "range_unbounded_included": ("quick", 400, None), "range_unbounded_excluded": ("quick", 400, None), "range_unbounded_unbounded": ("quick", 400, None),
    "bucket_put_new_between": ("thorough", 900, 8), "bucket_put_over_second": ("thorough", 900, 8), "bucket_put_new_above": ("thorough", 900, 8), "bucket_create_step": ("quick", 700, 8), "bucket_delete_first": ("quick", 700, 6), "bucket_put_new_below": ("thorough", 900, 8), "bucket_put_over_first": ("quick", 700, 8),
    "bucket_delete_second": ("thorough", 900, None),
    "cursor_seek_single_leaf": ("thorough", 1200, 10),
    "tx_commit_write_plan": ("quick", 800, 10), "tx_commit_power_loss": ("quick", 850, 18), "tx_commit_cow_freed_page_not_reused": ("quick", 800, 10),
    "tx_commit_growth_two_steps": ("quick", 700, 10), "tx_commit_strict_mode_accepts": ("quick", 850, 10),
    "tx_commit_fault_06_sync": ("quick", 700, 10), "tx_commit_fault_08_short": ("quick", 700, 10), "tx_commit_fault_10_sync": ("quick", 700, 10),
    "tx_abandoned_writer_no_trace": ("quick", 750, 8), "tx_abandoned_writer_single_page_no_trace": ("quick", 600, 8), "tx_commit_crash_prefix": ("thorough", 1200, 18), "tx_buckets_lists_own_creation": ("quick", 800, 10),
    "db_open_reloads_long_freelist": ("quick", 600, 6),
    # after the layout pins (DESIGN 10.1 item 6)
    "bucket_merge_emptied_leaf_multi_page_root": ("quick", 700, 6),
    "bucket_merge_first_leaf_into_right": ("parked", 3000, 12), "bucket_merge_second_leaf_into_left": ("parked", 3000, 12),
    "bucket_merge_three_levels_concrete": ("parked", 3000, 12), "bucket_merge_three_levels_right_then_left": ("parked", 3000, 12),
    "bucket_merge_three_levels_emptied_inner": ("parked", 3000, 12),
    "node_split_branch_three_pieces": ("quick", 600, 5), "node_split_branch_not_needed": ("quick", 300, None),
    "node_split_leaf_three_pieces": ("quick", 700, 6), "node_split_leaf_fits": ("quick", 300, None),
    "node_write_reallocates": ("quick", 300, None), "node_write_branch_reallocates": ("quick", 300, None),
    "node_spill_branch_root_fits": ("quick", 400, 4), "node_spill_branch_root_splits": ("parked", 1500, 24),
    "node_write_leaf_decode": ("parked", 1200, 20),
    "range_two_leaves_excluded_last_of_leaf": ("quick", 500, 5), "range_two_leaves_included_last_of_leaf": ("quick", 500, 5),
    "range_two_leaves_excluded_gap": ("parked", 3000, 8), "range_two_leaves_included_gap": ("parked", 3000, 8),
    "range_two_leaves_excluded_last_of_leaf_sym": ("parked", 3000, 12), "range_two_leaves_included_last_of_leaf_sym": ("parked", 3000, 12),
    "range_two_leaves_excluded_gap_sym": ("parked", 3000, 12), "range_two_leaves_included_gap_sym": ("parked", 3000, 12),
    "cursor_scan_after_put_new_concrete": ("quick", 400, 4), "cursor_scan_after_overwrite_concrete": ("quick", 400, 4),
    "cursor_scan_mixed_page_and_node": ("quick", 700, 6), "cursor_scan_after_emptying_first_leaf": ("quick", 600, 6),
    "tx_commit_fault_08_short_past_header": ("quick", 750, 10),
    "bucket_delete_nested_then_ancestor_frees_once": ("quick", 700, 8),
    "db_meta_legacy_then_current_header": ("quick", 400, None), "db_meta_current_then_legacy_header": ("quick", 400, None),
    "index_leaf_page_varlen_keys": ("quick", 300, None),
    "bucket_put_new_between": ("thorough", 900, 8), "bucket_put_new_above": ("thorough", 900, 8), "bucket_put_new_below": ("thorough", 900, 8),
}
def main():
    for f in os.listdir(os.path.join(V, "harness")):
        if not f.endswith(".rs"): continue
        p = os.path.join(V, "harness", f); s = open(p).read(); lines = s.split("\n"); changed = False
        for i, l in enumerate(lines):
            m = re.match(r"^\s*(?:(?:pub\s+)?fn\s+([A-Za-z0-9_]+)\s*\(|[a-z_]+_harness!\(\s*([A-Za-z0-9_]+)\s*,)", l)
            if not m: continue
            name = m.group(1) or m.group(2)
            if name not in TABLE: continue
            j = i
            while j >= 0 and "// @ob" not in lines[j]: j -= 1
            if j < 0: continue
            tier, cap, mem = TABLE[name]
            o = lines[j]
            o = re.sub(r"tier=\w+", "tier=" + tier, o)
            o = re.sub(r"cap=\d+", "cap=%d" % cap, o)
            o = re.sub(r" mem=\d+", "", o)
            if mem: o = o.replace(" fns=", " mem=%d fns=" % mem, 1)
            if o != lines[j]: lines[j] = o; changed = True
        if changed: open(p, "w").write("\n".join(lines))
main()
