#!/bin/sh
# run the expected detector harness(es) of every seed under Kani (no replay step), one seed at a time
# usage: seed_trials.sh [seed ...]   -> appends to /var/tmp/seed_trials.log
cd /verif
trial() { # seed prop harnesses
  echo "=== $1 ($2: $3)"; ./lib/try_seed.sh /verif/seeded/$1 $2 --only $3 --no-replay 2>&1 | grep -a "^  \[\|FAILED-UNREPLAYED\|try_seed\|patch does not"
}
ALL="C01a C02a C02b C03a C03b C05a C06a C07a C08a C08b C10a C10b C11a C12a C12b C15a C15b C16a C06b C11b C16b C07b C05c C02c C03c C12c R-C16fix R-C12fix R-C02fix R-C08fix1 R-C08fix2 R-C11fix R-C07fix"
[ $# -gt 0 ] && ALL="$*"
for s in $ALL; do
case $s in
 C01a) trial C01a C01 bucket_get_bucket_missing;;
 C02a) trial C02a C02 tx_commit_write_plan;;
 C02b) trial C02b C02 tx_commit_cow_freed_page_not_reused;;
 C03a) trial C03a C03 tx_begin_reader_and_drop;;
 C03b) trial C03b C03 tx_begin_writer_release_bound;;
 C05a) trial C05a C05 bucket_delete_frees_overflow_run,bucket_delete_walks_tree;;
 C06a) trial C06a C06 tx_abandoned_writer_no_trace;;
 C07a) trial C07a C07 tx_buckets_lists_own_creation;;
 C08a) trial C08a C08 range_included_included,range_included_unbounded;;
 C08b) trial C08b C08 cursor_scan_single_leaf;;
 C10a) trial C10a C10 tx_begin_writer_release_bound;;
 C11a) trial C11a C11 tx_commit_fault_08_short,tx_commit_fault_08_write;;
 C12a) trial C12a C12 meta_hash_covers_canonical;;
 C12b) trial C12b C12 db_meta_damage_newer0_rec;;
 C15a) trial C15a C15 meta_hash_covers_canonical;;
 C15b) trial C15b C15 page_layout_offsets,page_leaf_decode_ref;;
 C16a) trial C16a C16 tx_commit_growth_two_steps;;
 C10b) trial C10b C10 db_open_reloads_long_freelist;;
 C06b) trial C06b C06 tx_ro_listing_handles_are_readonly;;
 C11b) trial C11b C11 tx_commit_growth_then_fault_map_covers_file;;
 C16b) trial C16b C16 txfl_allocate_step;;
 C07b) trial C07b C07 cursor_seek_into_emptied_leaf_node;;
 C05c) trial C05c C05 txfl_allocate_step;;
 C02c) trial C02c C02 tx_commit_power_loss;;
 C03c) trial C03c C03 tx_drop_oldest_reader_keeps_order;;
 C12c) trial C12c C12 db_meta_damage_newer1_rec;;
 R-C16fix) trial R-C16fix C16 db_page_view_aligned_for_accepted_sizes;;
 R-C12fix) trial R-C12fix C12 db_meta_damage_type_byte_slot1;;
 R-C02fix) trial R-C02fix C02 tx_commit_power_loss;;
 R-C08fix1) trial R-C08fix1 C08 cursor_empty_bucket_next_again;;
 R-C08fix2) trial R-C08fix2 C08 range_excluded_included;;
 R-C11fix) trial R-C11fix C11 tx_commit_fault_10_sync;;
 R-C07fix) trial R-C07fix C07 cursor_scan_after_emptying_first_leaf;;
 C01c) trial C01c C01 index_leaf_page_varlen_keys;;
 C06c) trial C06c C06 bucket_put_over_bucket_refused;;
 C08c) trial C08c C08 range_two_leaves_excluded_last_of_leaf;;
 C10c) trial C10c C10 fl_allocate_step;;
 C11c) trial C11c C11 tx_commit_fault_06_sync;;
 C15c) trial C15c C15 db_meta_legacy_then_current_header,db_meta_current_then_legacy_header;;
 C05b) trial C05b C05 bucket_merge_emptied_leaf_multi_page_root;;
 R-C11fix2) trial R-C11fix2 C11 tx_commit_fault_08_short_past_header;;
 R-C05fix1) trial R-C05fix1 C05 bucket_delete_nested_then_ancestor_frees_once;;
esac
done
