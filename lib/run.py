#!/usr/bin/env python3
"""Runner: regenerates the scratch crate from /repo, runs the registered Kani harnesses
of one property (each in its own `cargo kani` process, time- and memory-capped, up to
JOBS in parallel), classifies the results, replays counterexamples natively, honours
KNOWN_FINDINGS.txt and writes /verif/evidence/<id>.json.

Exit codes: 0 property held on everything explored (known findings printed as
KNOWN-FINDING lines); 1 violation (VIOLATION line printed, replay confirmed natively);
2 inconclusive / infrastructure (timeout, out of memory, vacuous harness, non-reproducing
counterexample) -- never reported as success and never as a violation.
"""
import json
import os
import re
import resource
import shutil
import signal
import subprocess
import sys
import threading
import time

VERIF = os.path.dirname(os.path.dirname(os.path.abspath(__file__)))
sys.path.insert(0, os.path.join(VERIF, "lib"))
import gen  # noqa: E402

HARNESS_DIR = os.environ.get("JV_HARNESS_DIR") or os.path.join(VERIF, "harness")  # staging override for development only
SEED_DIR = os.path.join(VERIF, ".cache", "kani-seed")
JOBS = int(os.environ.get("JV_JOBS", "14"))
MEM_GB = int(os.environ.get("JV_MEM_GB", "10"))

# non-Kani obligations: (name, argv, properties, functions, bound)
EXTRA = [
    ("fnv_step_injectivity_smt", ["python3", os.path.join(VERIF, "smt", "fnv_lemmas.py")], ["C12"],
     ["fnv::FnvHasher::write (constants read from the crate source)"],
     "all 64-bit states and all bytes; z3 and cvc5 must both answer unsat"),
]

# Passed to CBMC for every harness. Field sensitivity for arrays up to 4200 elements: without it CBMC
# treats every heap object larger than 64 bytes (Box, Vec buffers, the DBInner) as one opaque byte
# array, constants stored in it (Vec len / cap, enum discriminants) are lost for symbolic execution,
# infeasible paths (Vec growth, realloc) are explored and the encoding runs out of memory
# (measured: Tx::new with one registered reader: OOM at 10 GB without, 31 s with).
CBMC_TAIL = ["-Z", "unstable-options", "--cbmc-args", "--max-field-sensitivity-array-size", "4200"]

OB_RE = re.compile(r"^\s*//\s*@ob\s+(.*)$")
FN_RE = re.compile(r"^\s*(?:(?:pub\s+)?fn\s+([A-Za-z0-9_]+)\s*\(|[a-z_]+_harness!\(\s*([A-Za-z0-9_]+)\s*,)")


def parse_registry():
    """harness registry = `// @ob key=value ...` comment lines in /verif/harness/*.rs, each
    applying to the next `fn`."""
    obs = []
    for f in sorted(os.listdir(HARNESS_DIR)):
        if not f.endswith(".rs"):
            continue
        mod = f[:-3]
        pending = None
        for line in open(os.path.join(HARNESS_DIR, f)):
            m = OB_RE.match(line)
            if m:
                kv = {}
                for tok in re.findall(r'(\w+)=("[^"]*"|\S+)', m.group(1)):
                    kv[tok[0]] = tok[1].strip('"')
                if pending:
                    pending.update(kv)
                else:
                    pending = kv
                continue
            m = FN_RE.match(line)
            if m and pending is not None:
                ob = dict(pending)
                fname = m.group(1) or m.group(2)
                ob["name"] = fname
                ob["module"] = mod
                ob["path"] = ("jv_%s::%s" % (mod, fname)) if mod.startswith("top_") else ("%s::jv::%s" % (mod, fname))
                ob["props"] = ob.get("props", "").split(",")
                ob["tier"] = ob.get("tier", "quick")
                ob["cap"] = int(ob.get("cap", "180"))
                ob["fns"] = [x for x in ob.get("fns", "").split(",") if x]
                obs.append(ob)
                pending = None
    return obs


def parse_known():
    """KNOWN_FINDINGS.txt lines:
       known: property=C08 harness=<name> check="<substring of the failing check's description or location>" <free text>
       fixed: property=C08 <commit> <free text>
    """
    known = []
    p = os.path.join(VERIF, "KNOWN_FINDINGS.txt")
    if not os.path.exists(p):
        return known
    for line in open(p):
        line = line.strip()
        if not line.startswith("known:"):
            continue
        m = re.match(r'known:\s+property=(\S+)\s+harness=(\S+)\s+check="([^"]*)"\s*(.*)$', line)
        if m:
            known.append({"property": m.group(1), "harness": m.group(2), "check": m.group(3), "text": m.group(4)})
    return known


CHECK_RE = re.compile(
    r"^Check (\d+): (.+)\n\s+- Status: (\S+)\n\s+- Description: \"((?:.|\n)*?)\"\n\s+- Location: (.*?)$", re.M)


def parse_log(text):
    r = {"checks": 0, "failed": [], "covers_sat": 0, "covers_total": 0, "covers_unsat": [], "status": None,
         "steps": None, "vccs": None, "vccs_remaining": None, "symex_s": None, "solver_s": 0.0, "verif_s": None,
         "unwind_fail": False, "oom": False, "undetermined": []}
    for m in CHECK_RE.finditer(text):
        num, name, status, desc, loc = m.groups()
        if ".cover." in name or status in ("SATISFIED", "UNSATISFIABLE", "UNREACHABLE") and "cover" in name:
            r["covers_total"] += 1
            if status == "SATISFIED":
                r["covers_sat"] += 1
            elif desc.strip().startswith("opt:"):
                # optional witness (shared helper called with a concrete case in which it cannot apply)
                r["covers_total"] -= 1
            else:
                r["covers_unsat"].append({"name": name, "desc": desc, "loc": loc, "status": status})
            continue
        r["checks"] += 1
        if status == "FAILURE":
            r["failed"].append({"name": name, "desc": desc.replace("\n", " "), "loc": loc})
            if ".unwind." in name:
                r["unwind_fail"] = True
        elif status == "UNDETERMINED":
            r["undetermined"].append({"name": name, "desc": desc, "loc": loc})
    m = re.search(r"VERIFICATION:- (\w+)", text)
    if m:
        r["status"] = m.group(1)
    m = re.search(r"size of program expression: (\d+) steps", text)
    if m:
        r["steps"] = int(m.group(1))
    m = re.search(r"Generated (\d+) VCC\(s\), (\d+) remaining after simplification", text)
    if m:
        r["vccs"], r["vccs_remaining"] = int(m.group(1)), int(m.group(2))
    m = re.search(r"Runtime Symex: ([0-9.e+-]+)s", text)
    if m:
        r["symex_s"] = float(m.group(1))
    r["solver_s"] = round(sum(float(x) for x in re.findall(r"Runtime Solver: ([0-9.e+-]+)s", text)), 3)
    m = re.search(r"Verification Time: ([0-9.]+)s", text)
    if m:
        r["verif_s"] = float(m.group(1))
    if "out of memory" in text.lower() or "CBMC failed with status 6" in text or "std::bad_alloc" in text or "Status: ERROR" in text or re.search(r"memory allocation of \d+ bytes failed", text):
        r["oom"] = True
    r["compile_error"] = bool(re.search(r"^error(\[E\d+\])?:", text, re.M)) and r["status"] is None
    return r


class Scratch:
    def __init__(self, tag):
        base = os.environ.get("VERIF_SCRATCH", "/var/tmp")
        self.root = os.path.join(base, "jv-%s-%d" % (tag, os.getpid()))
        if os.path.exists(self.root):
            shutil.rmtree(self.root)
        os.makedirs(self.root)
        self.crates = {}
        self.crate = self.crate_for("model")
        self.report = self.reports["model"]
        self.slots = []
        self.lock = threading.Lock()

    def crate_for(self, profile):
        with getattr(self, "lock", threading.Lock()):
            if profile not in self.crates:
                d = os.path.join(self.root, "crate-" + profile)
                os.makedirs(d)
                if not hasattr(self, "reports"):
                    self.reports = {}
                self.reports[profile] = gen.generate(d, quiet=True, profile=profile)
                self.crates[profile] = d
            return self.crates[profile]

    def slot(self):
        with self.lock:
            if self.slots:
                return self.slots.pop()
            self.nslots = getattr(self, "nslots", 0) + 1
            d = os.path.join(self.root, "t%d" % self.nslots)
            if os.path.isdir(SEED_DIR):
                shutil.copytree(SEED_DIR, d, symlinks=True)
            else:
                os.makedirs(d)
            return d

    def release(self, d):
        with self.lock:
            self.slots.append(d)

    def cleanup(self):
        shutil.rmtree(self.root, ignore_errors=True)


QUICK_CAP_S = int(os.environ.get("JV_QUICK_CAP_S", "780"))
MEM_BUDGET_GB = int(os.environ.get("JV_MEM_BUDGET_GB", "54"))


class MemBudget:
    """harnesses declare their address-space cap (mem=<GB>, default MEM_GB); the sum of the caps of
    the running ones never exceeds MEM_BUDGET_GB (the sandbox has 62 GB and no swap)"""

    def __init__(self, total):
        self.free = total
        self.cv = threading.Condition()

    def acquire(self, n):
        with self.cv:
            while self.free < n:
                self.cv.wait()
            self.free -= n

    def release(self, n):
        with self.cv:
            self.free += n
            self.cv.notify_all()


BUDGET = MemBudget(MEM_BUDGET_GB)


def _limits_for(gb):
    def f():
        os.setsid()
        lim = gb * 1024 ** 3
        resource.setrlimit(resource.RLIMIT_AS, (lim, lim))
    return f


def run_cmd(cmd, cwd, cap, logpath, limit_mem=True, mem_gb=None):
    env = dict(os.environ)
    env["CARGO_NET_OFFLINE"] = "true"
    env.pop("RUSTUP_TOOLCHAIN", None)
    t0 = time.time()
    with open(logpath, "w") as lf:
        p = subprocess.Popen(cmd, cwd=cwd, stdout=lf, stderr=subprocess.STDOUT, env=env,
                             preexec_fn=_limits_for(mem_gb or MEM_GB) if limit_mem else os.setsid)
        timed_out = False
        try:
            p.wait(timeout=cap)
        except subprocess.TimeoutExpired:
            timed_out = True
            try:
                os.killpg(p.pid, signal.SIGKILL)
            except ProcessLookupError:
                pass
            p.wait()
    return p.returncode, timed_out, time.time() - t0


def run_harness(scratch, ob, logdir, cap_scale=1.0):
    slot = scratch.slot()
    log = os.path.join(logdir, ob["name"] + ".log")
    cmd = ["cargo", "kani", "--target-dir", slot, "--exact", "--harness", ob["path"], "-Z", "stubbing"]
    if ob.get("flags"):
        cmd += ob["flags"].split()
    cmd += CBMC_TAIL
    cap = min(int(ob["cap"] * cap_scale), int(os.environ.get("JV_CAP_MAX", "1000000")))  # JV_CAP_MAX: development surveys only
    # mem=<GB> is the harness's expected resident size (default 3): that much of the memory budget is
    # reserved while it runs; the hard address-space cap is more generous (at least MEM_GB)
    mem = min(int(os.environ.get("JV_MEM_OVERRIDE") or ob.get("mem", 3)), MEM_BUDGET_GB)  # JV_MEM_OVERRIDE: surveys only
    BUDGET.acquire(mem)
    try:
        rc, timed_out, wall = run_cmd(cmd, scratch.crate_for(ob.get("profile", "model")), cap, log, mem_gb=max(MEM_GB, mem + 6))
    finally:
        BUDGET.release(mem)
    scratch.release(slot)
    text = open(log, errors="replace").read()
    r = parse_log(text)
    r.update({"name": ob["name"], "rc": rc, "timed_out": timed_out, "wall_s": round(wall, 1), "log": log, "cap": cap})
    if timed_out:
        r["verdict"] = "timeout"
    elif r["compile_error"]:
        r["verdict"] = "compile_error"
    elif r["status"] == "SUCCESSFUL":
        if r["covers_unsat"]:
            r["verdict"] = "vacuous"
        else:
            r["verdict"] = "pass"
    elif r["status"] == "FAILED":
        allow = [a for a in ob.get("allow", "").split("|") if a]
        r["allowed"] = [f for f in r["failed"] if any(a in f["desc"] for a in allow)]
        r["failed"] = [f for f in r["failed"] if not any(a in f["desc"] for a in allow)]
        real = [f for f in r["failed"] if ".unwind." not in f["name"]]
        # an assertion of an environment MODEL firing (capacity / bound of a model exceeded) says the harness
        # left the stated bound; it is never evidence about jammdb
        bound = [f for f in real if "outside the stated bound" in f["desc"] or "outside the model" in f["desc"] or "would deadlock" in f["desc"]]
        if bound and len(bound) == len(real):
            r["verdict"] = "model_bound"
            return r
        if r["oom"] and not real:
            r["verdict"] = "oom"
        elif not r["failed"] and r["allowed"] and not r["undetermined"]:
            # only documented refusals (allow=...) fired
            r["verdict"] = "vacuous" if r["covers_unsat"] else "pass"
        elif real:
            r["verdict"] = "fail"
        elif r["unwind_fail"]:
            r["verdict"] = "unwind"
        elif r["undetermined"]:
            r["verdict"] = "undetermined"
        else:
            r["verdict"] = "oom" if r["oom"] else "error"
    else:
        r["verdict"] = "error"
    return r


def native_exe(scratch, logdir):
    """build (once per run) the harnesses as ordinary code against env/kani_native; returns the test binary"""
    with scratch.lock:
        if getattr(scratch, "_native", None) is not None:
            return scratch._native
    d = scratch.crate_for("native")
    env = dict(os.environ, RUSTFLAGS="--cfg kani", CARGO_NET_OFFLINE="true", CARGO_TARGET_DIR=os.path.join(scratch.root, "native-target"))
    env.pop("RUSTUP_TOOLCHAIN", None)
    exe = None
    try:
        p = subprocess.run(["cargo", "test", "--lib", "--no-run", "--offline", "--message-format=json"], cwd=d, env=env,
                           capture_output=True, text=True, timeout=900)
        for line in p.stdout.splitlines():
            try:
                m = json.loads(line)
            except Exception:
                continue
            if m.get("executable") and m.get("profile", {}).get("test"):
                exe = m["executable"]
        if exe is None:
            open(os.path.join(logdir, "native-build.log"), "w").write(p.stdout[-4000:] + p.stderr[-8000:])
    except subprocess.TimeoutExpired:
        pass
    scratch._native = exe or ""
    return scratch._native


def native_run(exe, harness, seed, timeout=60):
    env = dict(os.environ, JV_HARNESS=harness, JV_SEED=str(seed), RUST_BACKTRACE="0")
    try:
        p = subprocess.run([exe, "jv_native_replay::replay", "--exact", "--nocapture", "--test-threads=1"], env=env,
                           capture_output=True, text=True, timeout=timeout)
    except subprocess.TimeoutExpired:
        return "timeout", "", ""
    out = p.stdout + p.stderr
    m = re.search(r"JV-RESULT (\w+)(?: values=(.*))?", out)
    kind = m.group(1) if m else ("fail" if p.returncode != 0 else "pass")
    values = (m.group(2) or "") if m else ""
    pm = re.search(r"panicked at ([^\n]*):\n([^\n]*(?:\n(?!note:|stack backtrace)[^\n]*){0,3})", out)
    msg = (pm.group(1) + " :: " + pm.group(2).strip()) if pm else out[-300:]
    return kind, values, msg


def native_replay(scratch, ob, res, prop, logdir, budget_s=150, max_runs=40000):
    """search for concrete values (seeded generator of env/kani_native) under which the harness, run as ordinary
    code against the same sources and models, fails the way CBMC reported; a fully concrete harness needs one run"""
    if ob.get("native", "yes") == "no":
        return None, "native replay not applicable (harness stubs a jammdb function)"
    exe = native_exe(scratch, logdir)
    if not exe:
        return None, "native replay build failed"
    wanted = [f["desc"].strip('"')[:50] for f in res["failed"] if ".unwind." not in f["name"]]
    locs = [re.sub(r" in function.*", "", f["loc"]).replace("src/jv/", "") for f in res["failed"]]
    t0 = time.time()
    seed = 0
    other = None
    while seed < max_runs and time.time() - t0 < budget_s:
        kind, values, msg = native_run(exe, ob["name"], seed)
        if kind == "fail":
            if any(w and w in msg for w in wanted) or any(l.split(":")[0] in msg and (":" + l.split(":")[1] + ":") in msg for l in locs if ":" in l):
                outdir = os.path.join(VERIF, "replays", prop)
                os.makedirs(outdir, exist_ok=True)
                path = os.path.join(outdir, ob["name"] + ".rs")
                with open(path, "w") as f:
                    f.write("// Counterexample for property %s, harness %s (module %s), found by CBMC via Kani and\n" % (prop, ob["name"], ob["module"]))
                    f.write("// REPRODUCED NATIVELY: the harness, compiled as ordinary Rust against the same sources of /repo and the\n")
                    f.write("// environment models, panics with the values below (env/kani_native generator, seed %d).\n" % seed)
                    f.write("// jv-replay: harness=%s seed=%d\n" % (ob["name"], seed))
                    f.write("// panic: %s\n" % msg.replace("\n", " | "))
                    f.write("// values drawn by kani::any(), in call order: %s\n" % values)
                    f.write("// CBMC failed checks:\n")
                    for c in res["failed"][:8]:
                        f.write("//   %s -- %s @ %s\n" % (c["name"], c["desc"][:200], c["loc"]))
                    f.write("// To re-run: /verif/check %s --replay %s\n" % (prop, path))
                return path, "reproduced"
            other = other or (seed, msg)
        elif kind == "timeout":
            return None, "native run timed out"
        seed += 1
    return None, "not reproduced natively in %d runs%s" % (seed, (" (another failure seen at seed %d: %s)" % other) if other else "")


def replay(scratch, ob, res, prop, logdir):
    path, how = native_replay(scratch, ob, res, prop, logdir)
    if how == "reproduced":
        return path, how
    kpath, khow = kani_playback(scratch, ob, res, prop, logdir)
    if khow == "reproduced":
        return kpath, khow
    return kpath or path, "%s; kani playback: %s" % (how, khow)


def kani_playback(scratch, ob, res, prop, logdir):
    """Turn CBMC's assignment into a concrete unit test (Kani concrete playback), run it
    natively against the same sources in the dev profile, and keep it under /verif/replays."""
    slot = scratch.slot()
    log = os.path.join(logdir, ob["name"] + ".playback-gen.log")
    # work on a private copy of the crate: `inplace` edits the harness source file
    rc_dir = os.path.join(scratch.root, "replay-" + ob["name"])
    if os.path.exists(rc_dir):
        shutil.rmtree(rc_dir)
    shutil.copytree(scratch.crate_for(ob.get("profile", "model")), rc_dir)
    # the playback build sets cfg(test): disable the repository's own unit-test modules in this
    # derived copy (they need dev-dependencies that the scratch crate does not declare)
    for f in os.listdir(os.path.join(rc_dir, "src")):
        fp = os.path.join(rc_dir, "src", f)
        if f.endswith(".rs"):
            t = open(fp).read()
            open(fp, "w").write(t.replace("#[cfg(test)]", "#[cfg(jv_never)]"))
    cmd = ["cargo", "kani", "--target-dir", slot, "--exact", "--harness", ob["path"],
           "-Z", "concrete-playback", "--concrete-playback=inplace", "-Z", "stubbing"]
    if ob.get("flags"):
        cmd += ob["flags"].split()
    cmd += CBMC_TAIL
    # the driver parses CBMC's full trace here: give it a generous address-space cap
    BUDGET.acquire(30)
    try:
        run_cmd(cmd, rc_dir, int(ob["cap"] * 3) + 300, log, mem_gb=30)
    finally:
        BUDGET.release(30)
    scratch.release(slot)
    hfile = os.path.join(rc_dir, "src", "jv", ob["module"] + ".rs")
    src = open(hfile).read()
    m = re.search(r"(#\[test\]\s*fn (kani_concrete_playback_%s_\w+)\(\)\s*\{.*?\n\}\n)" % re.escape(ob["name"]), src, re.S)
    if not m:
        return None, "no concrete playback test was generated"
    test_src, test_name = m.group(1), m.group(2)
    outdir = os.path.join(VERIF, "replays", prop)
    os.makedirs(outdir, exist_ok=True)
    path = os.path.join(outdir, ob["name"] + ".rs")
    plog = os.path.join(logdir, ob["name"] + ".playback-run.log")
    rc, timed_out, _ = run_cmd(["cargo", "kani", "playback", "-Z", "concrete-playback", "--only-codegen"], rc_dir, 600, plog, limit_mem=False)
    rc, timed_out, _ = run_cmd(["cargo", "kani", "playback", "-Z", "concrete-playback", "--", test_name],
                               rc_dir, 600, plog, limit_mem=False)
    out = open(plog, errors="replace").read()
    reproduced = ("test result: FAILED" in out) or ("panicked at" in out)
    ran = "running 1 test" in out
    with open(path, "w") as f:
        f.write("// Counterexample for property %s, harness %s (module %s), found by CBMC via Kani.\n" % (prop, ob["name"], ob["module"]))
        f.write("// Failed checks:\n")
        for c in res["failed"][:8]:
            f.write("//   %s -- %s @ %s\n" % (c["name"], c["desc"][:200], c["loc"]))
        f.write("// Native replay (dev profile, same sources + environment models): %s\n" % ("REPRODUCED" if reproduced else "did not reproduce"))
        f.write("// To re-run: /verif/check %s --replay %s\n" % (prop, path))
        f.write("// The test below belongs in /verif/harness/%s.rs (child module of src/%s.rs).\n\n" % (ob["module"], ob["module"]))
        f.write(test_src)
    if not ran:
        return path, "playback test did not run (see %s)" % plog
    return path, ("reproduced" if reproduced else "not reproduced")


def main():
    import argparse
    ap = argparse.ArgumentParser()
    ap.add_argument("prop")
    ap.add_argument("--tier", default=os.environ.get("VERIF_TIER", "quick"))
    ap.add_argument("--only", default=None, help="comma list of harness names")
    ap.add_argument("--keep", action="store_true")
    ap.add_argument("--no-evidence", action="store_true")
    ap.add_argument("--replay", default=None)
    ap.add_argument("--no-replay", action="store_true", help="development aid: report failing harnesses without the native replay step (exit 3)")
    args = ap.parse_args()
    tier = args.tier if args.tier in ("quick", "thorough") else "quick"
    prop = args.prop
    seed = int(os.environ.get("VERIF_SEED", "0") or 0)
    t0 = time.time()
    reg = parse_registry()
    obs = [o for o in reg if prop in o["props"] or prop == "ALL"]
    if args.only:
        names = args.only.split(",")
        obs = [o for o in reg if o["name"] in names]
    elif tier == "quick":
        obs = [o for o in obs if o["tier"] == "quick"]
    else:
        obs = [o for o in obs if o["tier"] in ("quick", "thorough")]
    if args.replay:
        txt = open(args.replay).read()
        m = re.search(r"jv-replay: harness=(\S+) seed=(\d+)", txt)
        if m:
            scratch = Scratch(prop + "-replay")
            try:
                logdir = os.path.join(VERIF, "logs", "%s-replay-%d" % (prop, os.getpid()))
                os.makedirs(logdir, exist_ok=True)
                exe = native_exe(scratch, logdir)
                if not exe:
                    print("INFRA: native replay build failed (see %s)" % logdir)
                    return 2
                kind, values, msg = native_run(exe, m.group(1), int(m.group(2)))
                print("replay harness=%s seed=%s result=%s" % (m.group(1), m.group(2), kind))
                print("values: %s" % values)
                print("panic: %s" % msg)
                if kind == "fail":
                    print("VIOLATION property=%s replay=%s" % (prop, args.replay))
                    return 1
                return 0
            finally:
                scratch.cleanup()
        name = os.path.basename(args.replay)[:-3]
        obs = [o for o in reg if o["name"] == name]
    if not obs:
        print("INFRA: no harness registered for %s" % prop)
        return 2
    known = parse_known()
    scratch = Scratch(prop)
    logdir = os.path.join(VERIF, "logs", prop if not (args.only or args.replay) else "%s-only-%d" % (prop, os.getpid()))
    shutil.rmtree(logdir, ignore_errors=True)
    os.makedirs(logdir)
    results = {}
    cap_scale = 3.0 if tier == "thorough" else 1.0
    try:
        # longest first
        order = sorted(obs, key=lambda o: -o["cap"])
        sem = threading.Semaphore(JOBS)
        threads = []

        def work(ob):
            with sem:
                try:
                    results[ob["name"]] = run_harness(scratch, ob, logdir, cap_scale)
                except Exception as e:  # infrastructure failure: never a verdict
                    results[ob["name"]] = {"name": ob["name"], "verdict": "error", "wall_s": 0.0, "checks": 0, "covers_sat": 0,
                                           "covers_total": 0, "steps": None, "solver_s": 0, "failed": [], "log": str(e),
                                           "vccs": None, "vccs_remaining": None, "symex_s": None}
                r = results[ob["name"]]
                print("  [%s] %-40s %-9s %6.1fs checks=%s covers=%s/%s steps=%s solver=%ss" % (
                    prop, ob["name"], r["verdict"], r["wall_s"], r["checks"], r["covers_sat"], r["covers_total"],
                    r["steps"], r["solver_s"]), flush=True)

        extra_results = {}

        def work_extra(name, argv):
            with sem:
                t1 = time.time()
                try:
                    pr = subprocess.run(argv, capture_output=True, text=True, timeout=600, cwd=VERIF)
                    out = pr.stdout.strip().splitlines()[-1] if pr.stdout.strip() else ""
                    try:
                        detail = json.loads(out)
                    except Exception:
                        detail = {"raw": (pr.stdout + pr.stderr)[-400:]}
                    extra_results[name] = {"rc": pr.returncode, "detail": detail, "wall_s": round(time.time() - t1, 1)}
                except subprocess.TimeoutExpired:
                    extra_results[name] = {"rc": 2, "detail": {"raw": "timeout"}, "wall_s": 600.0}
                print("  [%s] %-40s %-9s %6.1fs (smt)" % (prop, name, "pass" if extra_results[name]["rc"] == 0 else "inconcl", extra_results[name]["wall_s"]), flush=True)

        extras = [e for e in EXTRA if (prop in e[2] or prop == "ALL") and not args.only and not args.replay]
        for name, argv, _, _, _ in extras:
            t = threading.Thread(target=work_extra, args=(name, argv))
            t.start()
            threads.append(t)
        for ob in order:
            t = threading.Thread(target=work, args=(ob,))
            t.start()
            threads.append(t)
        for t in threads:
            t.join()

        violations = []
        known_hits = []
        inconclusive = []
        for ob in obs:
            r = results[ob["name"]]
            if r["verdict"] == "pass":
                continue
            if r["verdict"] == "fail":
                real = [f for f in r["failed"] if ".unwind." not in f["name"]]
                unmatched = []
                for f in real:
                    hit = None
                    for k in known:
                        if k["harness"] == ob["name"] and k["property"] in ob["props"] and (
                                k["check"] in f["desc"] or k["check"] in f["loc"] or k["check"] in f["name"]):
                            hit = k
                            break
                    if hit:
                        if (hit, ob["name"]) not in [(h, n) for h, n, _ in known_hits]:
                            known_hits.append((hit, ob["name"], f))
                    else:
                        unmatched.append(f)
                if unmatched and args.no_replay:
                    print("FAILED-UNREPLAYED property=%s harness=%s check=%s" % (prop, ob["name"], unmatched[0]["desc"][:140]))
                    inconclusive.append((ob, r, "replay skipped (--no-replay)"))
                elif unmatched:
                    path, how = replay(scratch, ob, r, prop, logdir)
                    r["replay"] = {"path": path, "result": how}
                    if how == "reproduced":
                        violations.append((ob, r, unmatched, path))
                    else:
                        inconclusive.append((ob, r, "counterexample %s: %s" % (how, unmatched[0]["desc"][:120])))
            else:
                inconclusive.append((ob, r, r["verdict"]))
        for name, argv, _, _, _ in extras:
            if extra_results[name]["rc"] != 0:
                inconclusive.append(({"name": name}, {"log": json.dumps(extra_results[name]["detail"])[:300]}, "smt lemma not discharged by both solvers"))
        for hit, name, f in known_hits:
            print("KNOWN-FINDING: property=%s harness=%s %s" % (prop, name, hit["text"]))
        for ob, r, why in inconclusive:
            print("INCONCLUSIVE property=%s harness=%s reason=%s log=%s" % (prop, ob["name"], why, r["log"]))
        for ob, r, unmatched, path in violations:
            print("  failed check: %s @ %s" % (unmatched[0]["desc"][:160], unmatched[0]["loc"]))
            print("VIOLATION property=%s replay=%s" % (prop, path))
        # every passing harness is also executed as ordinary code (env/kani_native) with a few seeded value draws:
        # concrete executions of the real code that must agree with the solver's verdict
        native_ok = {}
        if not args.no_evidence and not args.only and not args.replay and not violations:
            exe = native_exe(scratch, logdir)
            if exe:
                for ob in obs:
                    if results[ob["name"]]["verdict"] != "pass" or ob.get("native", "yes") == "no" or ob.get("profile", "model") != "model":
                        continue
                    allow = [a for a in ob.get("allow", "").split("|") if a]
                    ok = 0
                    for sd in range(seed * 1000, seed * 1000 + 12):
                        kind, values, msg = native_run(exe, ob["name"], sd, timeout=30)
                        if kind == "pass" or (kind == "fail" and any(a in msg for a in allow)):
                            ok += 1
                        elif kind == "fail":
                            inconclusive.append((ob, results[ob["name"]], "native execution disagrees with the solver (seed %d): %s" % (sd, msg[:120])))
                            break
                    native_ok[ob["name"]] = ok
        for ob, r, why in inconclusive:
            if why.startswith("native execution disagrees"):
                print("INCONCLUSIVE property=%s harness=%s reason=%s" % (prop, ob["name"], why))
        wall = time.time() - t0
        if not args.no_evidence and not args.only and not args.replay:
            write_evidence(prop, tier, seed, obs, results, scratch.report, wall, violations, known_hits, inconclusive,
                           [(e, extra_results[e[0]]) for e in extras], native_ok)
        if violations:
            return 1
        if inconclusive:
            return 2
        print("OK property=%s tier=%s harnesses=%d wall=%.0fs" % (prop, tier, len(obs), wall))
        return 0
    finally:
        if not args.keep:
            scratch.cleanup()
        else:
            print("scratch kept at", scratch.root)


def write_evidence(prop, tier, seed, obs, results, genrep, wall, violations, known_hits, inconclusive, extras=(), native_ok=None):
    native_ok = native_ok or {}
    passed = [o for o in obs if results[o["name"]]["verdict"] == "pass"]
    checks = sum(results[o["name"]]["checks"] or 0 for o in obs)
    covers = sum(results[o["name"]]["covers_sat"] or 0 for o in obs)
    fns = sorted(set(f for o in obs for f in o["fns"]))
    samples = []
    for o in obs:
        r = results[o["name"]]
        samples.append({
            "harness": o["path"], "verdict": r["verdict"], "functions": o["fns"], "bound": o.get("bound", ""),
            "unwind": o.get("unwind", ""), "wall_s": r["wall_s"], "cbmc_checks": r["checks"],
            "cover_witnesses": "%d/%d" % (r["covers_sat"], r["covers_total"]),
            "program_steps": r["steps"], "vccs": r["vccs"], "vccs_after_simplification": r["vccs_remaining"],
            "symex_s": r["symex_s"], "solver_s": r["solver_s"],
            "native_runs_agreeing": native_ok.get(o["name"]),
        })
    n_extra_ok = 0
    for (name, argv, _, fns_e, bound), r in extras:
        ok = r["rc"] == 0
        n_extra_ok += ok
        qs = r["detail"].get("queries", []) if isinstance(r["detail"], dict) else []
        checks += len(qs)
        samples.append({"obligation": name, "verdict": "pass" if ok else "inconclusive", "functions": fns_e, "bound": bound,
                        "wall_s": r["wall_s"], "smt_queries": qs, "constants": {k: r["detail"].get(k) for k in ("fnv_version", "basis", "prime")}})
        fns = sorted(set(fns) | set(fns_e))
    ev = {
        "property_id": prop,
        "tier": tier,
        "seed": seed,
        "level": "model_checking",
        "coverage": {
            "states": sum(results[o["name"]]["steps"] or 0 for o in obs) or 1,
            "transitions": sum(results[o["name"]]["vccs"] or 0 for o in obs) or 1,
            "traces_validated_against_impl": sum(native_ok.values()),
            "states_transitions_meaning": "bounded model checking has no explicit state graph: states = SSA program steps symbolically "
                                          "executed by CBMC (sum over harnesses), transitions = verification conditions generated; "
                                          "traces_validated_against_impl = concrete native executions of the passing harnesses "
                                          "(same sources and models, seeded values, env/kani_native) that ran to completion without "
                                          "any assertion failing, i.e. agree with the solver's verdict",
            "evaluations": checks,
            "distinct_nontrivial": covers,
            "rule": "one evaluation = one CBMC property check (assertion, arithmetic-overflow, bounds, pointer, unwinding "
                    "assertion) decided by the SAT back end over all symbolic inputs of a harness; distinct_nontrivial = "
                    "number of kani::cover! reachability witnesses that came back SATISFIED (each marks a distinct "
                    "interesting region of the input space that the harness demonstrably reaches)",
            "samples": samples,
            "obligations": len(obs) + len(extras),
            "discharged": len(passed) + n_extra_ok,
            "functions_encoded": fns,
            "solver_s_total": round(sum(results[o["name"]]["solver_s"] or 0 for o in obs), 1),
            "program_steps_total": sum(results[o["name"]]["steps"] or 0 for o in obs),
            "encoding": "regenerated on this run from /repo/src by lib/gen.py (use-redirection only; body-unchanged check passed); "
                        "Kani 0.68.0 -> CBMC 6.11.0 (CaDiCaL), unwinding assertions on",
            "redirected_imports": genrep["redirects"],
            "known_findings_hit": [h["text"] for h, _, _ in known_hits],
            "inconclusive": [{"harness": o["name"], "reason": why} for o, _, why in inconclusive],
            "exhaustive": False,
            "checker_cmd": "cargo kani --exact --harness <path> (per harness)",
            "trusted_base": ["Kani 0.68.0 / CBMC 6.11.0 / CaDiCaL", "environment models in /verif/env (jv_env fs/coll/ptr/sync, memmap2, fs4, bytes, bumpalo)",
                             "paper composition argument in DESIGN.md section 6"],
        },
        "assumptions": [
            "bounds per harness as listed in samples[].bound; everything outside them is outside the claim",
            "environment models of /verif/env stand in for std collections, Rc/Arc (leak model), Mutex/RwLock (single thread), the file, the memory map, bytes and bumpalo",
            "inductive-step obligations compose into the property by the paper argument in DESIGN.md (not machine checked)",
            "stubs in every harness: element-wise core::ptr::copy / copy_nonoverlapping, empty alloc::fmt::format; FNV-1a and SHA3 stand-ins of /verif/env (FNV model checked against the real crate by fnv_step_matches_formula)",
            "generated crate = /repo/src with std imports redirected to the models, #[repr(u64)] on enum Leaf and enum Data and the two variants of Leaf declared in the other order (layout only; DESIGN.md 10.1 item 6)",
            "harnesses that decode nested bucket headers replace <BucketMeta as From<&[u8]>>::from by its contract (little-endian decode), which bucket_meta_codec proves of the real function",
        ],
        "wall_s": round(wall, 1),
        "violations": len(violations),
    }
    os.makedirs(os.path.join(VERIF, "evidence"), exist_ok=True)
    with open(os.path.join(VERIF, "evidence", prop + ".json"), "w") as f:
        json.dump(ev, f, indent=1)


if __name__ == "__main__":
    sys.exit(main())
