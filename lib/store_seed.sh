#!/bin/sh
# verify a sub-agent's seed in its scratch worktree (lib/verify_seed.sh) and, when it holds up (suite passes with the
# change, demo fails with it and passes without it), store it under /verif/seeded/<id>/.  usage: store_seed.sh <id>
id=$1; D=/tmp/seed-$id; V=$(cd "$(dirname "$0")/.." && pwd)
out=$(sh $V/lib/verify_seed.sh $D 2>&1); echo "$out"
echo "$out" | grep -A1 "suite with change" | grep -q "failed 0" || { echo "REJECT $id: suite fails with the change"; exit 1; }
echo "$out" | grep -A1 "demo with change" | grep -q "FAILED\|failed; [1-9]" || { echo "$out" | grep -A1 "demo with change" | grep -q "test result" && { echo "REJECT $id: demo does not fail with the change"; exit 1; }; }
echo "$out" | grep -A3 "demo without change" | grep "test result" | grep -q "FAILED" && { echo "REJECT $id: demo fails without the change"; exit 1; }
echo "$out" | grep -A3 "demo without change" | grep -q "test result: ok" || { echo "REJECT $id: demo did not run on the clean tree"; exit 1; }
mkdir -p $V/seeded/$id
cp $D/SEED/patch.diff $D/SEED/seed_demo.rs $V/seeded/$id/
[ -f $D/SEED/README.md ] && cp $D/SEED/README.md $V/seeded/$id/AGENT_README.md
[ -d $D/SEED/data ] && cp -r $D/SEED/data $V/seeded/$id/
for f in $D/SEED/*.bin; do [ -f "$f" ] && mkdir -p $V/seeded/$id/data && cp "$f" $V/seeded/$id/data/; done
echo "STORED $id"
