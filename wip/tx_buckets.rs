
// ---- C07: the root-level bucket listing of a write transaction reflects its own creations
// @ob props=C07 tier=quick cap=1500 mem=12 fns=Tx::buckets,Tx::create_bucket,Buckets::next,Cursor::next,InnerBucket::get_bucket,InnerBucket::bucket_getter bound="committed root leaf with one bucket (1-byte name, symbolic); the write transaction creates one more bucket (1-byte name, symbolic, different) and lists the root buckets" unwind=5
#[kani::proof]
#[kani::unwind(5)]
fn tx_buckets_lists_own_creation() {
    let db = mk_db(&[], false);
    let old: [u8; 1] = kani::any();
    let new: [u8; 1] = kani::any();
    kani::assume(old[0] != new[0]);
    let bv = crate::cursor::jv::bucket_value(5, 0);
    let d = jv_env::disk();
    crate::cursor::jv::put_leaf_page_at(d.as_mut_ptr(), 3, 0, &[crate::cursor::jv::Ent { t: 1, k: &old, v: &bv }]);
    crate::cursor::jv::put_leaf_page_at(d.as_mut_ptr(), 5, 0, &[]);
    let res = db.tx(true);
    assert!(res.is_ok());
    if let Ok(tx) = res {
        let c = tx.create_bucket(new);
        assert!(c.is_ok());
        std::mem::forget(c);
        let mut it = tx.buckets();
        let first = it.next();
        let second = it.next();
        let third = it.next();
        let (lo, hi) = if old[0] < new[0] { (old[0], new[0]) } else { (new[0], old[0]) };
        match &first {
            Some((n, _)) => assert!(n.name().len() == 1 && n.name()[0] == lo, "committed and newly created buckets are listed together, in order"),
            None => assert!(false, "the listing misses the buckets"),
        }
        match &second {
            Some((n, _)) => assert!(n.name().len() == 1 && n.name()[0] == hi, "the bucket created in this transaction is listed"),
            None => assert!(false, "the listing misses the bucket created in this transaction"),
        }
        assert!(third.is_none());
        std::mem::forget(first);
        std::mem::forget(second);
        std::mem::forget(it);
        std::mem::forget(tx);
    }
}
