
// ---- C16-Ob3 / C02: file growth: when the commit needs more pages than the file has, the file is extended
//      before anything is written, in whole MIN_ALLOC_SIZE steps, to at least the required size
fn growth_case(hw: u64) {
    // like commit_db, but the header says the high-water mark is `hw` pages although the file holds 12:
    // every allocation beyond the free set extends the file
    lay_meta(0, 0, C - 1, 3, 0, hw, 2, PS);
    lay_meta(1, 1, C, 3, 0, hw, 2, PS);
    lay_freelist(2, &[]);
    lay_empty_leaf(3);
    let db: &'static DB = Box::leak(Box::new(DB { inner: Arc::new(mk_dbinner(12, flags(false))) }));
    let tx = match begin_and_dirty(db) {
        Some(t) => t,
        None => return,
    };
    let d = jv_env::disk();
    let r = tx.commit();
    assert!(r.is_ok());
    std::mem::forget(r);
    // two pages were allocated at the high-water mark: the dirty page and the new free-list page
    let required = (hw + 2) * PS;
    let current = 12 * PS;
    // first logged operation: the extension
    assert!(d.nops >= 1 && d.ops[0].kind == jv_env::fs::OP_ALLOCATE, "the file is extended before anything is written");
    let newlen = d.ops[0].len;
    assert!(newlen >= required, "the extension covers every page the commit writes");
    assert!((newlen - current) % (8 * 1024 * 1024) == 0 && newlen > current, "growth happens in whole 8 MiB steps");
    assert!(newlen - required < 8 * 1024 * 1024, "and not more steps than needed");
    let m = db.inner.meta();
    assert!(m.is_ok());
    if let Ok(m) = m {
        assert!(m.tx_id == C + 1 && m.num_pages == hw + 2, "the new header records the new high-water mark");
    }
}

// @ob props=C16,C02 tier=quick cap=1200 mem=12 fns=Tx::commit,TxInner::write_data,DBInner::resize bound="12-page file whose header records a high-water mark of 12 pages: growth by less than one 8 MiB step" unwind=260
#[kani::proof]
#[kani::unwind(260)]
fn tx_commit_growth_small() {
    growth_case(12);
}

// @ob props=C16,C02 tier=quick cap=1200 mem=12 fns=Tx::commit,TxInner::write_data,DBInner::resize bound="12-page file whose header records a high-water mark of 40000 pages (10 MB at 256-byte pages): growth crossing more than one 8 MiB step" unwind=260
#[kani::proof]
#[kani::unwind(260)]
fn tx_commit_growth_two_steps() {
    growth_case(40000);
}

// ---- C16-Ob5 / C05-Ob8: strict mode never rejects a valid commit (and rejects an inconsistent one)
fn strict_db(num_pages: u64) -> &'static DB {
    // 6-page file: headers, free-list page 2 = {4, 5}, empty root leaf 3, pages 4 and 5 free
    lay_meta(0, 0, C - 1, 3, 0, num_pages, 2, PS);
    lay_meta(1, 1, C, 3, 0, num_pages, 2, PS);
    lay_freelist(2, &[4, 5]);
    lay_empty_leaf(3);
    let db: &'static DB = Box::leak(Box::new(DB { inner: Arc::new(mk_dbinner(8, flags(true))) }));
    let mut fl = Freelist::new();
    fj::push_free(&mut fl, 4);
    fj::push_free(&mut fl, 5);
    {
        let mut g = db.inner.freelist.lock().unwrap();
        *g = fl;
    }
    db
}

// @ob props=C16,C05 tier=quick cap=1800 mem=12 fns=Tx::commit,TxInner::write_data,TxInner::check,Page::freelist,Page::leaf_elements bound="6-page consistent file (free {4,5}), empty transaction, strict mode on: the commit rewrites the free list only" unwind=260
#[kani::proof]
#[kani::unwind(260)]
fn tx_commit_strict_mode_accepts() {
    let db = strict_db(6);
    let res = db.tx(true);
    assert!(res.is_ok());
    if let Ok(tx) = res {
        let r = tx.commit();
        assert!(r.is_ok(), "strict mode accepts a valid commit");
        std::mem::forget(r);
        let d = jv_env::disk();
        assert!(d.nwrites() == 2, "free-list page and header");
        let m = db.inner.meta();
        assert!(m.is_ok());
        if let Ok(m) = m {
            assert!(m.tx_id == C + 1 && m.freelist_page == 4 && m.num_pages == 6);
        }
    }
}

// @ob props=C05,C16 tier=quick cap=1800 mem=12 fns=Tx::commit,TxInner::write_data,TxInner::check bound="same file but the header claims 7 pages (page 6 is neither reachable nor free), strict mode on: the self check must refuse, before the header is written" unwind=260
#[kani::proof]
#[kani::unwind(260)]
fn tx_commit_strict_mode_rejects_leak() {
    let db = strict_db(7);
    let res = db.tx(true);
    assert!(res.is_ok());
    if let Ok(tx) = res {
        let r = tx.commit();
        assert!(matches!(r, Err(Error::InvalidDB(_))), "the built-in check reports the unaccounted page");
        std::mem::forget(r);
        let m = db.inner.meta();
        assert!(m.is_ok());
        if let Ok(m) = m {
            assert!(m.tx_id == C, "and the header of the refused commit was not written");
        }
    }
}
