
// ---- C12: a zeroed header page (e.g. a lost sector) falls back to the other header
// @ob props=C12 tier=quick cap=400 fns=DBInner::meta,Page::from_buf,Page::meta,Meta::valid bound="concrete headers (tx 6 in slot 0, tx 7 in slot 1); the first 104 bytes of slot 0 or of slot 1 zeroed (symbolic choice)" unwind=9
#[kani::proof]
#[kani::unwind(9)]
fn db_meta_zeroed_header_page() {
    lay_meta(0, 0, 6, 3, 5, 9, 2, PS);
    lay_meta(1, 1, 7, 4, 6, 10, 8, PS);
    let db = mk_dbinner(4, DBFlags { strict_mode: false, mmap_populate: false, direct_writes: false });
    let d = jv_env::disk();
    let which: bool = kani::any();
    let base = if which { (PS / 8) as usize } else { 0 };
    let mut w = 0;
    while w < 13 {
        d.words[base + w] = 0;
        w += 1;
    }
    let m = db.meta();
    assert!(m.is_ok());
    if let Ok(m) = m {
        if which {
            assert!(m.meta_page == 0 && m.tx_id == 6 && m.root.root_page == 3 && m.freelist_page == 2, "newest header zeroed: the previous commit is shown in full");
        } else {
            assert!(m.meta_page == 1 && m.tx_id == 7 && m.root.root_page == 4 && m.freelist_page == 8, "older header zeroed: the newest commit is shown");
        }
    }
    std::mem::forget(db);
}

// ---- C15: a file carrying only legacy-format headers is accepted through the legacy path and converted
//      (the SHA3 checksum is the solver builds' stand-in function, see env/sha3)
// @ob props=C15 tier=quick cap=600 fns=DBInner::meta,Page::old_meta,OldMeta::valid,OldMeta::hash_self,OldMeta::bytes,Meta::from<&OldMeta> bound="both header slots in the legacy layout (32-byte checksum), concrete fields, tx 6 and tx 7" unwind=40
#[kani::proof]
#[kani::unwind(40)]
fn db_meta_legacy_headers_accepted() {
    let d = jv_env::disk();
    let mut s = 0u64;
    while s < 2 {
        unsafe {
            let p = &mut *(d.as_mut_ptr().add((s * PS) as usize) as *mut Page);
            p.id = s;
            p.page_type = Page::TYPE_META;
            p.count = 0;
            p.overflow = 0;
            let m = &mut *(&mut p.ptr as *mut u64 as *mut crate::meta::OldMeta);
            m.meta_page = s as u32;
            m.magic = MAGIC_VALUE;
            m.version = VERSION;
            m.pagesize = PS;
            m.root = BucketMeta { root_page: 3 + s, next_int: 5 };
            m.num_pages = 9;
            m.freelist_page = 2;
            m.tx_id = 6 + s;
            m.hash = m.hash_self();
        }
        s += 1;
    }
    let db = mk_dbinner(4, DBFlags { strict_mode: false, mmap_populate: false, direct_writes: false });
    let m = db.meta();
    assert!(m.is_ok(), "a legacy-format file opens");
    if let Ok(m) = m {
        assert!(m.tx_id == 7 && m.meta_page == 1 && m.root.root_page == 4 && m.root.next_int == 5 && m.num_pages == 9 && m.freelist_page == 2 && m.pagesize == PS,
                "with the contents of its newest legacy header");
        assert!(m.valid(), "converted to a valid new-format record");
    }
    std::mem::forget(db);
}
