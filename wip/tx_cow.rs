
// ---- C02 copy-on-write: a page freed by the committing transaction itself is not reused by that commit
//      (it is still part of the previous state), and no page in use is written
// @ob props=C02,C05 tier=quick cap=1500 mem=12 fns=Tx::commit,TxInner::write_data,TxFreelist::free,TxFreelist::allocate,Freelist::allocate,Freelist::free bound="12-page file, free set {4}; the writer dirties one page (gets 4), frees page 9 (in use by the previous state), commits" unwind=260
#[kani::proof]
#[kani::unwind(260)]
fn tx_commit_cow_freed_page_not_reused() {
    let db = mk_db(&[4], false);
    {
        let mut fl = Freelist::new();
        fj::push_free(&mut fl, 4);
        let mut g = db.inner.freelist.lock().unwrap();
        *g = fl;
    }
    let d = jv_env::disk();
    let mut w = (6 * PS / 8) as usize;
    while w < (12 * PS / 8) as usize {
        d.words[w] = 0x5a5a_0000_0000_0000 | w as u64;
        w += 1;
    }
    let tx = match begin_and_dirty(db) {
        Some(t) => t,
        None => return,
    };
    {
        let inner = tx.inner.borrow();
        let mut tf = inner.freelist.borrow_mut();
        tf.free(9, 1); // e.g. the root page of a bucket deleted in this transaction
    }
    let r = tx.commit();
    assert!(r.is_ok());
    std::mem::forget(r);
    untouched_pages_ok();
    assert!(!d.oob);
    let m = db.inner.meta();
    assert!(m.is_ok());
    if let Ok(m) = m {
        assert!(m.tx_id == C + 1 && m.freelist_page == 12 && m.num_pages == 13,
                "no free page was left, so the new free-list page extends the file instead of reusing page 9");
    }
    let fl = db.inner.freelist.peek();
    assert!(fj::n_free(fl) == 0, "nothing freed by this transaction became allocatable");
    let p = fj::pending_of(fl, C + 1);
    assert!(p.is_some());
    if let Some(p) = p {
        assert!(p.len() == 2 && p[0] == 9 && p[1] == 2, "page 9 and the old free-list page are pending under the committing transaction");
    }
}
