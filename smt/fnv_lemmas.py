#!/usr/bin/env python3
"""C12-Ob2 (SMT half): one-step injectivity of FNV-1a-64, with the prime and offset basis
READ FROM THE fnv CRATE SOURCE that the repository's Cargo.lock pins (regenerated on every
run).  Lemmas (bit-vectors of width 64 / 8, wrap-around semantics):

  L1  h != h'  ==>  step(h, b) != step(h', b)          (state-injective)
  L2  b != b'  ==>  step(h, b) != step(h, b')          (byte-injective)
  where step(h, b) = (h xor zext(b)) * PRIME  mod 2^64

With C12-Ob1 (the checksum is the 60-step fold of the canonical bytes, harness
meta_hash_covers_canonical) and the Kani obligation that one step of the real hasher is
exactly `step` (fnv_step_matches_formula, real crate), a fixed 60-step composition gives:
any change confined to ONE byte of the hashed fields changes the checksum.

Both /usr/bin/z3 and cvc5 must answer `unsat` for each negated lemma; any `(error` line,
`unknown`, timeout or disagreement is inconclusive (exit 2).  Prints one JSON line.
"""
import glob
import json
import os
import re
import subprocess
import sys
import time


def fnv_constants():
    lock = open("/repo/Cargo.lock").read()
    m = re.search(r'name = "fnv"\nversion = "([^"]+)"', lock)
    ver = m.group(1) if m else "1.0.7"
    cands = glob.glob(os.path.expanduser("~/.cargo/registry/src/*/fnv-%s/lib.rs" % ver))
    if not cands:
        raise SystemExit("INFRA: fnv-%s source not found in the cargo registry" % ver)
    src = open(cands[0]).read()
    basis = re.search(r"FnvHasher\((0x[0-9a-fA-F_]+)\)", src)
    prime = re.search(r"wrapping_mul\((0x[0-9a-fA-F_]+)\)", src)
    if not basis or not prime:
        raise SystemExit("INFRA: could not read the FNV constants from %s" % cands[0])
    return ver, cands[0], int(basis.group(1).replace("_", ""), 16), int(prime.group(1).replace("_", ""), 16)


def smt(prime, which):
    step = lambda h, b: "(bvmul (bvxor %s ((_ zero_extend 56) %s)) #x%016x)" % (h, b, prime)
    s = "(set-logic QF_BV)\n(declare-const h (_ BitVec 64))\n(declare-const h2 (_ BitVec 64))\n"
    s += "(declare-const b (_ BitVec 8))\n(declare-const b2 (_ BitVec 8))\n"
    if which == "state":
        s += "(assert (distinct h h2))\n(assert (= %s %s))\n" % (step("h", "b"), step("h2", "b"))
    else:
        s += "(assert (distinct b b2))\n(assert (= %s %s))\n" % (step("h", "b"), step("h", "b2"))
    return s + "(check-sat)\n"


def run(solver_cmd, text, timeout=120):
    t = time.time()
    try:
        p = subprocess.run(solver_cmd, input=text, capture_output=True, text=True, timeout=timeout)
        out = (p.stdout + p.stderr).strip()
    except subprocess.TimeoutExpired:
        out = "timeout"
    return out, round(time.time() - t, 3)


def main():
    ver, path, basis, prime = fnv_constants()
    res = {"fnv_version": ver, "source": path, "basis": hex(basis), "prime": hex(prime), "queries": [], "ok": True}
    if prime % 2 == 0:
        res["ok"] = False
    for which in ("state", "byte"):
        q = smt(prime, which)
        for name, cmd in (("z3", ["/usr/bin/z3", "-in", "-smt2"]), ("cvc5", ["cvc5", "--lang", "smt2"])):
            out, secs = run(cmd, q)
            ok = out.splitlines()[:1] == ["unsat"] and "(error" not in out
            res["queries"].append({"lemma": which + "-injective", "solver": name, "answer": out[:60], "seconds": secs})
            if not ok:
                res["ok"] = False
    print(json.dumps(res))
    return 0 if res["ok"] else 2


if __name__ == "__main__":
    sys.exit(main())
