import time, sys
from z3 import *
P = BitVecVal(0x100000001b3, 64); B = BitVecVal(0xcbf29ce484222325, 64)
def chain(bs):
    h = B
    for b in bs:
        h = (h ^ ZeroExt(56, b)) * P
    return h
N = 60
bs = [BitVec(f"b{i}", 8) for i in range(N)]
for j in [0, 30, 52]:
    d = BitVec("d", 8)
    bs2 = list(bs); bs2[j] = bs[j] ^ d
    s = SolverFor("QF_BV"); s.set("timeout", 120000)
    s.add(d != 0, chain(bs) == chain(bs2))
    t = time.time(); r = s.check(); print("z3 pos", j, r, round(time.time()-t, 2)); sys.stdout.flush()
