use std::io::Result;
pub trait FileExt {
    fn lock_exclusive(&self) -> Result<()>;
    fn allocate(&self, len: u64) -> Result<()>;
}
impl FileExt for vfs::File {
    fn lock_exclusive(&self) -> Result<()> {
        Ok(())
    }
    fn allocate(&self, len: u64) -> Result<()> {
        self.set_len_model(len)
    }
}
