//! Contract-equivalent, solver-friendly stand-ins for the std containers jammdb uses.
use std::borrow::Borrow;
use std::ops::Index;

// ---------- sorted set (fixed capacity) ----------
pub const SET_CAP: usize = 8;
#[derive(Clone, Debug, PartialEq, Eq)]
pub struct BTreeSet<T> { a: [T; SET_CAP], n: usize }
impl<T: Ord + Copy + Default> BTreeSet<T> {
    pub fn new() -> Self { BTreeSet { a: [T::default(); SET_CAP], n: 0 } }
    pub fn len(&self) -> usize { self.n }
    pub fn is_empty(&self) -> bool { self.n == 0 }
    pub fn contains(&self, t: &T) -> bool {
        let mut i = 0;
        while i < SET_CAP { if i < self.n && &self.a[i] == t { return true; } i += 1; }
        false
    }
    pub fn insert(&mut self, t: T) -> bool {
        // position = number of elements < t ; duplicate => false
        let mut pos = 0;
        let mut i = 0;
        while i < SET_CAP {
            if i < self.n {
                if self.a[i] == t { return false; }
                if self.a[i] < t { pos += 1; }
            }
            i += 1;
        }
        assert!(self.n < SET_CAP, "vcoll::BTreeSet capacity exceeded (outside the stated bound)");
        let mut j = SET_CAP - 1;
        while j > 0 {
            if j > pos && j <= self.n { self.a[j] = self.a[j - 1]; }
            j -= 1;
        }
        self.a[pos] = t;
        self.n += 1;
        true
    }
    pub fn remove(&mut self, t: &T) -> bool {
        let mut pos = SET_CAP;
        let mut i = 0;
        while i < SET_CAP { if i < self.n && &self.a[i] == t { pos = i; } i += 1; }
        if pos == SET_CAP { return false; }
        let mut j = 0;
        while j + 1 < SET_CAP {
            if j >= pos && j + 1 < self.n { self.a[j] = self.a[j + 1]; }
            j += 1;
        }
        self.n -= 1;
        true
    }
    pub fn iter(&self) -> std::slice::Iter<'_, T> { self.a[..self.n].iter() }
}
impl<T: Ord + Copy + Default> FromIterator<T> for BTreeSet<T> {
    fn from_iter<I: IntoIterator<Item = T>>(it: I) -> Self {
        let mut s = BTreeSet::new();
        for x in it { s.insert(x); }
        s
    }
}

// ---------- sorted map (fixed capacity) ----------
pub const BMAP_CAP: usize = 4;
pub struct BTreeMap<K, V> { a: [Option<(K, V)>; BMAP_CAP], n: usize }
impl<K: Clone, V: Clone> Clone for BTreeMap<K, V> {
    fn clone(&self) -> Self {
        BTreeMap { a: [self.a[0].clone(), self.a[1].clone(), self.a[2].clone(), self.a[3].clone()], n: self.n }
    }
}
pub struct Entry<'a, K, V> { m: &'a mut BTreeMap<K, V>, k: K }
impl<'a, K: Ord + Copy, V> Entry<'a, K, V> {
    pub fn or_insert_with<F: FnOnce() -> V>(self, f: F) -> &'a mut V {
        let i = match self.m.find(&self.k) {
            Some(i) => i,
            None => self.m.insert_at_sorted(self.k, f()),
        };
        &mut self.m.a[i].as_mut().unwrap().1
    }
}
impl<K: Ord + Copy, V> BTreeMap<K, V> {
    pub fn new() -> Self { BTreeMap { a: [None, None, None, None], n: 0 } }
    pub fn len(&self) -> usize { self.n }
    pub fn is_empty(&self) -> bool { self.n == 0 }
    fn find(&self, k: &K) -> Option<usize> {
        let mut i = 0;
        while i < BMAP_CAP { if let Some(e) = &self.a[i] { if &e.0 == k { return Some(i); } } i += 1; }
        None
    }
    fn insert_at_sorted(&mut self, k: K, v: V) -> usize {
        assert!(self.n < BMAP_CAP, "vcoll::BTreeMap capacity exceeded (outside the stated bound)");
        let mut pos = 0;
        let mut i = 0;
        while i < BMAP_CAP { if let Some(e) = &self.a[i] { if e.0 < k { pos += 1; } } i += 1; }
        let mut j = BMAP_CAP - 1;
        while j > pos { self.a[j] = self.a[j - 1].take(); j -= 1; }
        self.a[pos] = Some((k, v));
        self.n += 1;
        pos
    }
    pub fn entry(&mut self, k: K) -> Entry<'_, K, V> { Entry { m: self, k } }
    pub fn insert(&mut self, k: K, val: V) -> Option<V> {
        match self.find(&k) {
            Some(i) => { let old = self.a[i].take(); self.a[i] = Some((k, val)); old.map(|e| e.1) }
            None => { self.insert_at_sorted(k, val); None }
        }
    }
    pub fn get(&self, k: &K) -> Option<&V> { match self.find(k) { Some(i) => self.a[i].as_ref().map(|e| &e.1), None => None } }
    pub fn remove(&mut self, k: &K) -> Option<V> {
        match self.find(k) {
            Some(i) => {
                let old = self.a[i].take();
                let mut j = i;
                while j + 1 < BMAP_CAP { self.a[j] = self.a[j + 1].take(); j += 1; }
                self.n -= 1;
                old.map(|e| e.1)
            }
            None => None,
        }
    }
    pub fn keys(&self) -> impl Iterator<Item = &K> + '_ { self.a.iter().filter_map(|e| e.as_ref().map(|e| &e.0)) }
    pub fn iter(&self) -> impl Iterator<Item = (&K, &V)> + '_ { self.a.iter().filter_map(|e| e.as_ref().map(|e| (&e.0, &e.1))) }
}

// ---------- unordered map (fixed capacity association array) ----------
pub const MAP_CAP: usize = 6;
pub struct HashMap<K, V> { a: [Option<(K, V)>; MAP_CAP] }
impl<K: Eq, V> HashMap<K, V> {
    pub fn new() -> Self { HashMap { a: [None, None, None, None, None, None] } }
    pub fn len(&self) -> usize { let mut n = 0; let mut i = 0; while i < MAP_CAP { if self.a[i].is_some() { n += 1; } i += 1; } n }
    pub fn is_empty(&self) -> bool { self.len() == 0 }
    fn pos<Q: ?Sized + Eq>(&self, k: &Q) -> Option<usize> where K: Borrow<Q> {
        let mut i = 0;
        while i < MAP_CAP {
            if let Some(e) = &self.a[i] { if e.0.borrow() == k { return Some(i); } }
            i += 1;
        }
        None
    }
    pub fn contains_key<Q: ?Sized + Eq>(&self, k: &Q) -> bool where K: Borrow<Q> { self.pos(k).is_some() }
    pub fn get<Q: ?Sized + Eq>(&self, k: &Q) -> Option<&V> where K: Borrow<Q> {
        match self.pos(k) { Some(i) => self.a[i].as_ref().map(|e| &e.1), None => None }
    }
    pub fn get_mut<Q: ?Sized + Eq>(&mut self, k: &Q) -> Option<&mut V> where K: Borrow<Q> {
        match self.pos(k) { Some(i) => self.a[i].as_mut().map(|e| &mut e.1), None => None }
    }
    pub fn insert(&mut self, k: K, val: V) -> Option<V> {
        match self.pos(&k) {
            Some(i) => { let old = self.a[i].take(); self.a[i] = Some((k, val)); old.map(|e| e.1) }
            None => {
                let mut i = 0;
                while i < MAP_CAP { if self.a[i].is_none() { self.a[i] = Some((k, val)); return None; } i += 1; }
                panic!("vcoll::HashMap capacity exceeded (outside the stated bound)");
            }
        }
    }
    pub fn remove<Q: ?Sized + Eq>(&mut self, k: &Q) -> Option<V> where K: Borrow<Q> {
        match self.pos(k) { Some(i) => self.a[i].take().map(|e| e.1), None => None }
    }
    pub fn iter(&self) -> impl Iterator<Item = (&K, &V)> + '_ { self.a.iter().filter_map(|e| e.as_ref().map(|e| (&e.0, &e.1))) }
    pub fn values(&self) -> impl Iterator<Item = &V> + '_ { self.a.iter().filter_map(|e| e.as_ref().map(|e| &e.1)) }
}
impl<K: Eq, V, Q: ?Sized + Eq> Index<&Q> for HashMap<K, V> where K: Borrow<Q> {
    type Output = V;
    fn index(&self, k: &Q) -> &V { self.get(k).expect("no entry found for key") }
}
impl<K: Eq, V> IntoIterator for HashMap<K, V> {
    type Item = (K, V);
    type IntoIter = std::iter::Flatten<std::array::IntoIter<Option<(K, V)>, MAP_CAP>>;
    fn into_iter(self) -> Self::IntoIter { self.a.into_iter().flatten() }
}

#[derive(Clone, Debug)]
pub struct HashSet<T> { v: Vec<T> }
impl<T: Eq> HashSet<T> {
    pub fn new() -> Self { HashSet { v: Vec::new() } }
    pub fn is_empty(&self) -> bool { self.v.is_empty() }
    pub fn insert(&mut self, t: T) -> bool { if self.v.iter().any(|x| *x == t) { false } else { self.v.push(t); true } }
    pub fn remove(&mut self, t: &T) -> bool {
        match self.v.iter().position(|x| x == t) { Some(i) => { self.v.remove(i); true } None => false }
    }
}
impl<T: Eq> FromIterator<T> for HashSet<T> {
    fn from_iter<I: IntoIterator<Item = T>>(it: I) -> Self {
        let mut s = HashSet::new();
        for x in it { s.insert(x); }
        s
    }
}

// ---------- leak-model shared pointers: clone copies the pointer, nothing is ever freed ----------
pub struct Rc<T: ?Sized>(*const T);
impl<T> Rc<T> { pub fn new(t: T) -> Self { Rc(Box::leak(Box::new(t)) as *const T) } }
impl<T: ?Sized> Clone for Rc<T> { fn clone(&self) -> Self { Rc(self.0) } }
impl<T: ?Sized> std::ops::Deref for Rc<T> { type Target = T; fn deref(&self) -> &T { unsafe { &*self.0 } } }
impl<T: ?Sized + std::fmt::Debug> std::fmt::Debug for Rc<T> { fn fmt(&self, f: &mut std::fmt::Formatter<'_>) -> std::fmt::Result { (**self).fmt(f) } }
pub struct Arc<T: ?Sized>(*const T);
unsafe impl<T: ?Sized + Sync + Send> Send for Arc<T> {}
unsafe impl<T: ?Sized + Sync + Send> Sync for Arc<T> {}
impl<T> Arc<T> { pub fn new(t: T) -> Self { Arc(Box::leak(Box::new(t)) as *const T) } }
impl<T: ?Sized> Clone for Arc<T> { fn clone(&self) -> Self { Arc(self.0) } }
impl<T: ?Sized> std::ops::Deref for Arc<T> { type Target = T; fn deref(&self) -> &T { unsafe { &*self.0 } } }
