//! In-memory model of the file the database lives in (probe version).
use std::io::{self, Seek, SeekFrom, Write};
use std::path::Path;

pub const CAP: usize = 2048;

pub struct Disk {
    pub buf: [u8; CAP],
    pub len: usize,
    pub nwrites: usize,
    pub nsyncs: usize,
}

pub static mut DISK: Disk = Disk { buf: [0; CAP], len: 0, nwrites: 0, nsyncs: 0 };

pub fn disk() -> &'static mut Disk {
    unsafe { &mut *std::ptr::addr_of_mut!(DISK) }
}

pub struct File {
    pos: u64,
}

pub struct Metadata {
    len: u64,
}
impl Metadata {
    pub fn len(&self) -> u64 {
        self.len
    }
}

impl File {
    pub fn raw() -> File {
        File { pos: 0 }
    }
    pub fn metadata(&self) -> io::Result<Metadata> {
        Ok(Metadata { len: disk().len as u64 })
    }
    pub fn sync_all(&self) -> io::Result<()> {
        disk().nsyncs += 1;
        Ok(())
    }
    pub fn set_len_model(&self, len: u64) -> io::Result<()> {
        let d = disk();
        if len as usize > CAP {
            return Err(io::Error::from_raw_os_error(28));
        }
        if (len as usize) > d.len {
            d.len = len as usize;
        }
        Ok(())
    }
}

impl Seek for File {
    fn seek(&mut self, pos: SeekFrom) -> io::Result<u64> {
        match pos {
            SeekFrom::Start(p) => {
                self.pos = p;
                Ok(p)
            }
            _ => Err(io::Error::from_raw_os_error(22)),
        }
    }
}

impl Write for File {
    fn write(&mut self, data: &[u8]) -> io::Result<usize> {
        let d = disk();
        let start = self.pos as usize;
        let end = start + data.len();
        if end > CAP {
            return Err(io::Error::from_raw_os_error(28));
        }
        d.buf[start..end].copy_from_slice(data);
        if end > d.len {
            d.len = end;
        }
        d.nwrites += 1;
        self.pos = end as u64;
        Ok(data.len())
    }
    fn flush(&mut self) -> io::Result<()> {
        Ok(())
    }
}

#[derive(Default)]
pub struct OpenOptions {
    create_new: bool,
}
impl OpenOptions {
    pub fn new() -> Self {
        Self::default()
    }
    pub fn write(&mut self, _: bool) -> &mut Self {
        self
    }
    pub fn read(&mut self, _: bool) -> &mut Self {
        self
    }
    pub fn create_new(&mut self, c: bool) -> &mut Self {
        self.create_new = c;
        self
    }
    pub fn custom_flags(&mut self, _: i32) -> &mut Self {
        self
    }
    pub fn open<P: AsRef<Path>>(&self, _path: P) -> io::Result<File> {
        Ok(File { pos: 0 })
    }
}
