//! vtable-free stand-in for the `bytes` crate surface jammdb uses (immutable shared byte string).
use std::io;
#[derive(Clone, Copy, Debug, PartialEq, Eq, Hash)]
pub struct Bytes(&'static [u8]);
impl Bytes {
    pub fn copy_from_slice(s: &[u8]) -> Bytes { Bytes(Box::leak(s.to_vec().into_boxed_slice())) }
    pub fn len(&self) -> usize { self.0.len() }
    pub fn is_empty(&self) -> bool { self.0.is_empty() }
}
impl std::ops::Deref for Bytes { type Target = [u8]; fn deref(&self) -> &[u8] { self.0 } }
impl AsRef<[u8]> for Bytes { fn as_ref(&self) -> &[u8] { self.0 } }
pub struct BytesMut(Vec<u8>);
impl BytesMut {
    pub fn new() -> Self { BytesMut(Vec::new()) }
    pub fn freeze(self) -> Bytes { Bytes(Box::leak(self.0.into_boxed_slice())) }
}
pub trait BufMut: Sized { fn writer(self) -> Writer<Self> { Writer(self) } }
impl BufMut for BytesMut {}
pub struct Writer<B>(B);
impl<B> Writer<B> { pub fn into_inner(self) -> B { self.0 } }
impl io::Write for Writer<BytesMut> {
    fn write(&mut self, d: &[u8]) -> io::Result<usize> { self.0 .0.extend_from_slice(d); Ok(d.len()) }
    fn flush(&mut self) -> io::Result<()> { Ok(()) }
}
