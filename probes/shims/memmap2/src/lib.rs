use std::io::Result;
use std::ops::Deref;
use vfs::File;

pub enum Advice {
    Normal,
    Random,
    Sequential,
    WillNeed,
}

pub struct Mmap {
    ptr: *const u8,
    len: usize,
}
unsafe impl Send for Mmap {}
unsafe impl Sync for Mmap {}

impl Mmap {
    pub unsafe fn map(_file: &File) -> Result<Mmap> {
        let d = vfs::disk();
        Ok(Mmap { ptr: d.buf.as_ptr(), len: d.len })
    }
    pub fn advise(&self, _a: Advice) -> Result<()> {
        Ok(())
    }
}
impl Deref for Mmap {
    type Target = [u8];
    fn deref(&self) -> &[u8] {
        unsafe { std::slice::from_raw_parts(self.ptr, self.len) }
    }
}
impl AsRef<[u8]> for Mmap {
    fn as_ref(&self) -> &[u8] {
        self.deref()
    }
}

#[derive(Default)]
pub struct MmapOptions {
    populate: bool,
}
impl MmapOptions {
    pub fn new() -> Self {
        Self::default()
    }
    pub fn populate(&mut self) -> &mut Self {
        self.populate = true;
        self
    }
    pub unsafe fn map(&self, file: &File) -> Result<Mmap> {
        Mmap::map(file)
    }
}
