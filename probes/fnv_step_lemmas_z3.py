import time, sys
from z3 import *
P = BitVecVal(0x100000001b3, 64)
h, h2 = BitVecs("h h2", 64); b, b2 = BitVecs("b b2", 8)
step = lambda h, b: (h ^ ZeroExt(56, b)) * P
for name, cs in [("state-injective", [h != h2, step(h, b) == step(h2, b)]),
                 ("byte-injective", [b != b2, step(h, b) == step(h, b2)])]:
    s = SolverFor("QF_BV"); s.set("timeout", 120000); s.add(*cs)
    t = time.time(); r = s.check(); print(name, r, round(time.time()-t, 2)); sys.stdout.flush()
