#[cfg(kani)]
mod kprobe_fl {
    use super::*;

    #[kani::proof]
    #[kani::unwind(10)]
    fn fl_allocate_step() {
        let mut fl = Freelist::new();
        let mask: u8 = kani::any(); // bit i <=> page i+2 is free
        let mut i = 0u64;
        while i < 8 {
            if mask & (1u8 << i) != 0 { fl.free_pages.insert(i + 2); }
            i += 1;
        }
        let n: usize = kani::any();
        kani::assume(n >= 1 && n <= 3);
        let r = fl.allocate(n);
        // reference: first run of n consecutive set bits
        let run: u8 = if n == 1 { 1 } else if n == 2 { 3 } else { 7 };
        let mut first: Option<u64> = None;
        let mut s = 0u64;
        while s + (n as u64) <= 8 {
            if first.is_none() && (mask >> s) & run == run { first = Some(s + 2); }
            s += 1;
        }
        assert!(r == first);
        if let Some(p) = r {
            // exactly the run was removed
            let mut q = 2u64;
            while q < 10 {
                let was = mask & (1u8 << (q - 2)) != 0;
                let inrun = q >= p && q < p + n as u64;
                assert!(fl.free_pages.contains(&q) == (was && !inrun));
                q += 1;
            }
        }
    }
}
