#[cfg(kani)]
mod kani_probe {
    use super::*;
    // 385 s on the unmodified crate (real deps): one damaged byte anywhere in tx_id invalidates the header
    #[kani::proof]
    #[kani::unwind(70)]
    fn meta_single_byte_damage() {
        let mut m = Meta {
            meta_page: kani::any(),
            magic: kani::any(),
            version: kani::any(),
            pagesize: kani::any(),
            root: BucketMeta { root_page: kani::any(), next_int: kani::any() },
            num_pages: kani::any(),
            freelist_page: kani::any(),
            tx_id: kani::any(),
            hash: 0,
        };
        m.hash = m.hash_self();
        assert!(m.valid());
        let i: usize = kani::any();
        kani::assume(i < 8);
        let x: u8 = kani::any();
        kani::assume(x != 0);
        let mut b = m.tx_id.to_le_bytes();
        b[i] ^= x;
        m.tx_id = u64::from_le_bytes(b);
        assert!(!m.valid());
    }
}
