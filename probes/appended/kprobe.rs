use vcoll::{Rc, Arc};

use std::sync::{Mutex, RwLock};
use crate::db::{DBInner, DBFlags, DB};
use crate::page::Page;
use crate::bucket::BucketMeta;
use crate::freelist::Freelist;

const PS: u64 = 256;

/// Build the 4-page empty database image directly in the model disk (no memcpy), and a DB over it.
fn mk_db(npages: usize) -> DB {
    let d = vfs::disk();
    d.len = npages * PS as usize;
    unsafe {
        for i in 0..2u64 {
            let p = &mut *(d.buf.as_mut_ptr().add((i * PS) as usize) as *mut Page);
            p.id = i;
            p.page_type = Page::TYPE_META;
            let m = p.meta_mut();
            m.meta_page = i as u32;
            m.magic = 0x00AB_CDEF;
            m.version = 1;
            m.pagesize = PS;
            m.freelist_page = 2;
            m.root = BucketMeta { root_page: 3, next_int: 0 };
            m.num_pages = 4;
            m.tx_id = 0;
            m.hash = m.hash_self();
        }
        let p = &mut *(d.buf.as_mut_ptr().add((2 * PS) as usize) as *mut Page);
        p.id = 2; p.page_type = Page::TYPE_FREELIST; p.count = 0;
        let p = &mut *(d.buf.as_mut_ptr().add((3 * PS) as usize) as *mut Page);
        p.id = 3; p.page_type = Page::TYPE_LEAF; p.count = 0;
    }
    let file = vfs::File::raw();
    let mmap = unsafe { memmap2::Mmap::map(&file).unwrap() };
    let inner = DBInner {
        data: Mutex::new(Arc::new(mmap)),
        mmap_lock: RwLock::new(()),
        freelist: Mutex::new(Freelist::new()),
        file: Mutex::new(file),
        open_ro_txs: Mutex::new(Vec::new()),
        flags: DBFlags { strict_mode: false, mmap_populate: false, direct_writes: false },
        pagesize: PS,
    };
    DB { inner: Arc::new(inner) }
}

#[kani::proof]
#[kani::unwind(10)]
fn probe_a_begin() {
    let db = mk_db(8);
    let tx = db.tx(true).unwrap();
    assert!(tx.writable());
    std::mem::forget(tx);
    std::mem::forget(db);
}

#[kani::proof]
#[kani::unwind(10)]
fn probe_c_put_get() {
    let db = mk_db(8);
    let tx = db.tx(true).unwrap();
    let b = tx.create_bucket("a").unwrap();
    let k1: [u8; 1] = kani::any();
    let k2: [u8; 1] = kani::any();
    b.put(k1, [1u8]).unwrap();
    b.put(k2, [2u8]).unwrap();
    let g = b.get(k1).unwrap();
    let v = g.kv().value()[0];
    assert!(v == if k1 == k2 { 2 } else { 1 });
    assert!(b.next_int() == if k1 == k2 { 1 } else { 2 });
    std::mem::forget(g);
    std::mem::forget(b);
    std::mem::forget(tx);
    std::mem::forget(db);
}

#[kani::proof]
#[kani::unwind(10)]
fn probe_d_put_commit() {
    let db = mk_db(8);
    let tx = db.tx(true).unwrap();
    {
        let b = tx.create_bucket("a").unwrap();
        let k1: [u8; 1] = kani::any();
        b.put(k1, [1u8]).unwrap();
        std::mem::forget(b);
    }
    tx.commit().unwrap();
    assert!(vfs::disk().nsyncs == 1);
    std::mem::forget(db);
}

use std::rc::Rc as _StdRc;
use std::cell::RefCell;
use std::marker::PhantomData;
use crate::bucket::{Bucket, InnerBucket};
use crate::freelist::TxFreelist;
use crate::meta::Meta;
use crate::page::Pages;

fn mk_pages(npages: usize) -> Pages {
    let d = vfs::disk();
    d.len = npages * PS as usize;
    unsafe {
        let p = &mut *(d.buf.as_mut_ptr().add((3 * PS) as usize) as *mut Page);
        p.id = 3; p.page_type = Page::TYPE_LEAF; p.count = 0;
    }
    let file = vfs::File::raw();
    let mmap = unsafe { memmap2::Mmap::map(&file).unwrap() };
    Pages::new(Arc::new(mmap), PS)
}
fn mk_meta() -> Meta {
    Meta { meta_page: 0, magic: 0x00AB_CDEF, version: 1, pagesize: PS, root: BucketMeta { root_page: 3, next_int: 0 }, num_pages: 4, freelist_page: 2, tx_id: 1, hash: 0 }
}
fn mk_bucket<'b>(pages: Pages) -> Bucket<'b, 'b> {
    let inner = InnerBucket::from_meta(BucketMeta { root_page: 3, next_int: 0 }, pages);
    Bucket {
        inner: Rc::new(RefCell::new(inner)),
        freelist: Rc::new(RefCell::new(TxFreelist::new(mk_meta(), Freelist::new()))),
        writable: true,
        _phantom: PhantomData,
    }
}

// P1: tree kernel without Tx/DB: two puts of symbolic 1-byte keys into an empty root leaf, then get + next_int
#[kani::proof]
#[kani::unwind(6)]
fn p1_put_get() {
    let b = mk_bucket(mk_pages(4));
    let k1: [u8; 1] = kani::any();
    let k2: [u8; 1] = kani::any();
    b.put(k1, [1u8]).unwrap();
    b.put(k2, [2u8]).unwrap();
    let g = b.get(k1).unwrap();
    let v = g.kv().value()[0];
    assert!(v == if k1 == k2 { 2 } else { 1 });
    assert!(b.next_int() == if k1 == k2 { 1 } else { 2 });
    std::mem::forget(g);
    std::mem::forget(b);
}

// P2: P1 + rebalance + spill (split/write/write_node through the arena), then read the page image back
#[kani::proof]
#[kani::unwind(6)]
fn p2_put_spill() {
    let b = mk_bucket(mk_pages(4));
    let k1: [u8; 1] = kani::any();
    let k2: [u8; 1] = kani::any();
    kani::assume(k1[0] < k2[0]);
    b.put(k1, [1u8]).unwrap();
    b.put(k2, [2u8]).unwrap();
    let fl = b.freelist.clone();
    let mut fl = fl.borrow_mut();
    let meta = {
        let mut ib = b.inner.borrow_mut();
        ib.rebalance(&mut fl).unwrap();
        ib.spill(&mut fl).unwrap()
    };
    assert!(meta.root_page == 4);
    assert!(meta.next_int == 2);
    assert!(fl.meta.num_pages == 5);
    let (ptr, size) = *fl.pages.get(&4).unwrap();
    let page = unsafe { &*(ptr.as_ptr() as *const Page) };
    assert!(page.count == 2);
    let le = page.leaf_elements();
    assert!(le[0].key() == &k1[..]);
    assert!(le[1].key() == &k2[..]);
    assert!(le[1].value() == &[2u8][..]);
    assert!(size == 32 + 2 * 32 + 4);
    std::mem::forget(fl);
    std::mem::forget(b);
}

// P3: cursor over a page-backed leaf holding 3 symbolic sorted 1-byte keys: full scan, end, end again; and seek
#[kani::proof]
#[kani::unwind(6)]
fn p3_cursor_page() {
    let pages = mk_pages(4);
    let keys: [u8; 3] = kani::any();
    kani::assume(keys[0] < keys[1] && keys[1] < keys[2]);
    let d = vfs::disk();
    unsafe {
        // hand-lay a leaf page per the on-disk layout: header(32) + 3 elems(32 each) + key bytes + value bytes
        let base = d.buf.as_mut_ptr().add((3 * PS) as usize);
        let p = &mut *(base as *mut Page);
        p.count = 3;
        for i in 0..3usize {
            let e = base.add(32 + 32 * i) as *mut u64;
            *(e as *mut u8) = 0; // node_type data
            *e.add(1) = (32 * (3 - i) + 2 * i) as u64; // pos relative to element
            *e.add(2) = 1; // key_size
            *e.add(3) = 1; // value_size
            *base.add(32 + 96 + 2 * i) = keys[i];
            *base.add(32 + 96 + 2 * i + 1) = 100 + i as u8;
        }
    }
    let b = mk_bucket(pages);
    let mut c = b.cursor();
    for i in 0..3usize {
        let dd = c.next().unwrap();
        assert!(dd.key()[0] == keys[i]);
        assert!(dd.kv().value()[0] == 100 + i as u8);
        std::mem::forget(dd);
    }
    assert!(c.next().is_none());
    assert!(c.next().is_none());
    let s: [u8; 1] = kani::any();
    let exists = c.seek(s);
    assert!(exists == (s[0] == keys[0] || s[0] == keys[1] || s[0] == keys[2]));
    std::mem::forget(c);
    std::mem::forget(b);
}

// P3e: repeated next() on an empty bucket
#[kani::proof]
#[kani::unwind(6)]
fn p3e_cursor_empty() {
    let b = mk_bucket(mk_pages(4));
    let mut c = b.cursor();
    assert!(c.next().is_none());
    assert!(c.next().is_none());
    std::mem::forget(c);
    std::mem::forget(b);
}

use crate::node::{Node, Leaf, NodeData};
use crate::bytes::Bytes;

// Tier A: node insert + page encode + decode round trip (no Rc / maps / bucket)
#[kani::proof]
#[kani::unwind(5)]
fn a1_node_write_roundtrip() {
    let k: [[u8; 1]; 3] = kani::any();
    let v: [[u8; 1]; 3] = kani::any();
    let mut n = Node::new(0, Page::TYPE_LEAF, 256);
    n.insert_data(Leaf::Kv(Bytes::Slice(&k[0]), Bytes::Slice(&v[0])));
    n.insert_data(Leaf::Kv(Bytes::Slice(&k[1]), Bytes::Slice(&v[1])));
    n.insert_data(Leaf::Kv(Bytes::Slice(&k[2]), Bytes::Slice(&v[2])));
    let len = n.data.len();
    // reference: number of distinct keys
    let distinct = 1 + (k[1] != k[0]) as usize + (k[2] != k[0] && k[2] != k[1]) as usize;
    assert!(len == distinct);
    let mut buf = [0u64; 32];
    let page = unsafe { &mut *(buf.as_mut_ptr() as *mut Page) };
    page.id = 0;
    page.overflow = 0;
    n.page_id = 0;
    page.write_node(&n, 1).unwrap();
    assert!(page.count as usize == distinct);
    let le = page.leaf_elements();
    let mut i = 0;
    while i + 1 < distinct {
        assert!(le[i].key()[0] < le[i + 1].key()[0]);
        i += 1;
    }
    // last write wins for k[2]
    let mut j = 0;
    while j < distinct {
        if le[j].key()[0] == k[2][0] { assert!(le[j].value()[0] == v[2][0]); }
        j += 1;
    }
    std::mem::forget(n);
}

// C16-Ob4: alignment of the page view with a symbolic page size
#[kani::proof]
fn a2_from_buf_alignment() {
    let buf = [0u64; 600]; // 4800 bytes, 8-aligned base
    let bytes: &[u8] = unsafe { std::slice::from_raw_parts(buf.as_ptr() as *const u8, 4800) };
    let ps: u64 = kani::any();
    kani::assume(ps >= 1024 && ps <= 2048);
    let p = Page::from_buf(bytes, 1, ps);
    let t = p.page_type;
    assert!(t == 0);
}

use crate::page_node::PageNode;
// C01-Ob3: binary search contract on a hand-laid leaf page with 3 symbolic sorted 2-byte keys
#[kani::proof]
#[kani::unwind(4)]
fn a3_index_page() {
    let keys: [[u8; 2]; 3] = kani::any();
    kani::assume(keys[0] < keys[1] && keys[1] < keys[2]);
    let mut buf = [0u64; 32];
    unsafe {
        let base = buf.as_mut_ptr() as *mut u8;
        let p = &mut *(base as *mut Page);
        p.id = 3; p.page_type = Page::TYPE_LEAF; p.count = 3;
        for i in 0..3usize {
            let e = base.add(32 + 32 * i) as *mut u64;
            *(e as *mut u8) = 0;
            *e.add(1) = (32 * (3 - i) + 3 * i) as u64;
            *e.add(2) = 2;
            *e.add(3) = 1;
            *base.add(32 + 96 + 3 * i) = keys[i][0];
            *base.add(32 + 96 + 3 * i + 1) = keys[i][1];
            *base.add(32 + 96 + 3 * i + 2) = 7;
        }
    }
    let page = unsafe { &*(buf.as_ptr() as *const Page) };
    let pn = PageNode::Page(page);
    let probe: [u8; 2] = kani::any();
    let (i, exact) = pn.index(&probe);
    let mut below = 0usize; let mut hit = false;
    for k in keys.iter() { if *k < probe { below += 1; } if *k == probe { hit = true; } }
    assert!(exact == hit);
    if hit { assert!(i == below); } else { assert!(i == below.saturating_sub(1)); }
    kani::cover!(hit && i == 2);
    kani::cover!(!hit && below == 0);
}

// C12-Ob4 (slice): real DBInner::meta() with one damaged byte in the 16-byte page header prefix of the OLDER header page
#[kani::proof]
#[kani::unwind(10)]
fn a4_meta_select_damage() {
    let db = mk_db(8);
    let d = vfs::disk();
    unsafe {
        let p = &mut *(d.buf.as_mut_ptr().add(PS as usize) as *mut Page);
        let m = p.meta_mut();
        m.tx_id = 1;
        m.hash = m.hash_self();
    }
    let off: usize = kani::any();
    kani::assume(off < 16);
    let val: u8 = kani::any();
    kani::assume(val != d.buf[off]);
    d.buf[off] = val;
    let m = db.inner.meta().unwrap();
    assert!(m.tx_id == 1);
    std::mem::forget(db);
}
