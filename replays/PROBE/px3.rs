// Counterexample for property PROBE, harness px3 (module node), found by CBMC via Kani.
// Failed checks:
//   page::Page::write_node.assertion.1 -- assertion failed: self.id == n.page_id @ src/page.rs:184:9 in function page::Page::write_node
// Native replay (dev profile, same sources + environment models): REPRODUCED
// To re-run: /verif/check PROBE --replay /verif/replays/PROBE/px3.rs
// The test below belongs in /verif/harness/node.rs (child module of src/node.rs).

#[test]
fn kani_concrete_playback_px3_14643846168594614328() {
    let concrete_vals: Vec<Vec<u8>> = vec![
        // 0
        vec![0],
        // 0
        vec![0],
        // 0
        vec![0],
    ];
    kani::concrete_playback_run(concrete_vals, px3);
}
