// Counterexample for property C05, harness fl_release_step (module freelist), found by CBMC via Kani.
// Failed checks:
//   jv_env::BTreeSet::<u64>::insert.assertion.25 -- "jv_env::BTreeSet capacity exceeded (outside the stated bound)" @ ../../../../verif/env/jv_env/src/coll.rs:88:9 in function jv_env::BTreeSet::<u64>::insert
// Native replay (dev profile, same sources + environment models): did not reproduce
// To re-run: /verif/check C05 --replay /verif/replays/C05/fl_release_step.rs
// The test below belongs in /verif/harness/freelist.rs (child module of src/freelist.rs).

#[test]
fn kani_concrete_playback_fl_release_step_8342000065385623599() {
    let concrete_vals: Vec<Vec<u8>> = vec![
        // 15
        vec![15],
        // 12346241334892593548ul
        vec![140, 129, 132, 181, 20, 169, 86, 171],
        // 12346241337048532365ul
        vec![141, 133, 5, 54, 21, 169, 86, 171],
        // 12346241343617344910ul
        vec![142, 165, 141, 189, 22, 169, 86, 171],
        // 3ul
        vec![3, 0, 0, 0, 0, 0, 0, 0],
        // 17293822274897313215ul
        vec![191, 253, 253, 127, 187, 255, 255, 239],
    ];
    kani::concrete_playback_run(concrete_vals, fl_release_step);
}
