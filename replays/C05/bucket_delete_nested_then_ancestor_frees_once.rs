// Counterexample for property C05, harness bucket_delete_nested_then_ancestor_frees_once (module bucket), found by CBMC via Kani and
// REPRODUCED NATIVELY: the harness, compiled as ordinary Rust against the same sources of /repo and the
// environment models, panics with the values below (env/kani_native generator, seed 0).
// jv-replay: harness=bucket_delete_nested_then_ancestor_frees_once seed=0
// panic: src/jv/bucket.rs:871:9 :: JV-C05-DOUBLE-FREE: every page of the deleted subtree is given back exactly once
// values drawn by kani::any(), in call order: []
// CBMC failed checks:
//   bucket::jv::bucket_delete_nested_then_ancestor_frees_once.assertion.5 -- "JV-C05-DOUBLE-FREE: every page of the deleted subtree is given back exactly once" @ src/jv/bucket.rs:925:9 in function bucket::jv::bucket_delete_nested_then_ancestor_frees_once
// To re-run: /verif/check C05 --replay /verif/replays/C05/bucket_delete_nested_then_ancestor_frees_once.rs
