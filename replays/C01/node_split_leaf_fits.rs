// Counterexample for property C01, harness node_split_leaf_fits (module node), found by CBMC via Kani.
// Failed checks:
//   node::jv::split_leaf_case.assertion.18 -- "entries stay in order, with their values" @ src/jv/node.rs:762:17 in function node::jv::split_leaf_case
// Native replay (dev profile, same sources + environment models): did not reproduce
// To re-run: /verif/check C01 --replay /verif/replays/C01/node_split_leaf_fits.rs
// The test below belongs in /verif/harness/node.rs (child module of src/node.rs).

#[test]
fn kani_concrete_playback_node_split_leaf_fits_12338096346546990655() {
    let concrete_vals: Vec<Vec<u8>> = vec![
        // 0
        vec![0],
        // 0
        vec![0],
        // 0
        vec![0],
        // 0
        vec![0],
        // 0
        vec![0],
        // 0
        vec![0],
        // 0
        vec![0],
        // 0
        vec![0],
        // 0
        vec![0],
        // 0
        vec![0],
        // 0
        vec![0],
        // 0
        vec![0],
        // 0
        vec![0],
        // 0
        vec![0],
        // 0
        vec![0],
        // 0
        vec![0],
        // 0
        vec![0],
        // 0
        vec![0],
        // 0
        vec![0],
        // 0
        vec![0],
        // 0
        vec![0],
        // 0
        vec![0],
        // 0
        vec![0],
        // 0
        vec![0],
        // 0
        vec![0],
        // 0
        vec![0],
        // 0
        vec![0],
        // 0
        vec![0],
        // 0
        vec![0],
        // 0
        vec![0],
        // 0
        vec![0],
        // 0
        vec![0],
        // 0
        vec![0],
        // 0
        vec![0],
        // 0
        vec![0],
        // 0
        vec![0],
        // 0
        vec![0],
        // 0
        vec![0],
        // 0
        vec![0],
        // 0
        vec![0],
        // 0
        vec![0],
        // 0
        vec![0],
        // 0
        vec![0],
        // 0
        vec![0],
        // 0
        vec![0],
        // 0
        vec![0],
        // 0
        vec![0],
        // 0
        vec![0],
        // 0
        vec![0],
        // 0
        vec![0],
        // 0
        vec![0],
        // 0
        vec![0],
        // 0
        vec![0],
        // 0
        vec![0],
        // 0
        vec![0],
        // 0
        vec![0],
        // 0
        vec![0],
        // 0
        vec![0],
        // 0
        vec![0],
        // 0
        vec![0],
        // 0
        vec![0],
        // 0
        vec![0],
        // 0
        vec![0],
        // 0
        vec![0],
        // 0
        vec![0],
        // 0
        vec![0],
        // 0
        vec![0],
        // 0
        vec![0],
        // 0
        vec![0],
        // 0
        vec![0],
        // 0
        vec![0],
        // 0
        vec![0],
        // 0
        vec![0],
        // 0
        vec![0],
        // 0
        vec![0],
        // 0
        vec![0],
    ];
    kani::concrete_playback_run(concrete_vals, node_split_leaf_fits);
}
