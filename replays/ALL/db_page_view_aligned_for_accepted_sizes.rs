// Counterexample for property ALL, harness db_page_view_aligned_for_accepted_sizes (module db), found by CBMC via Kani.
// Failed checks:
//   page::Page::from_buf.safety_check.1 -- misaligned pointer dereference: address must be a multiple of its type's alignment @ src/page.rs:64:13 in function page::Page::from_buf
// Native replay (dev profile, same sources + environment models): REPRODUCED
// To re-run: /verif/check ALL --replay /verif/replays/ALL/db_page_view_aligned_for_accepted_sizes.rs
// The test below belongs in /verif/harness/db.rs (child module of src/db.rs).

#[test]
fn kani_concrete_playback_db_page_view_aligned_for_accepted_sizes_13811380703191183731() {
    let concrete_vals: Vec<Vec<u8>> = vec![
        // 1023ul
        vec![255, 3, 0, 0, 0, 0, 0, 0],
    ];
    kani::concrete_playback_run(concrete_vals, db_page_view_aligned_for_accepted_sizes);
}
