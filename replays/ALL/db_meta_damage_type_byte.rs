// Counterexample for property ALL, harness db_meta_damage_type_byte (module db), found by CBMC via Kani.
// Failed checks:
//   page::Page::meta.assertion.1 -- "Did not find meta page, found {}", self.page_type @ src/page.rs:69:9 in function page::Page::meta
// Native replay (dev profile, same sources + environment models): REPRODUCED
// To re-run: /verif/check ALL --replay /verif/replays/ALL/db_meta_damage_type_byte.rs
// The test below belongs in /verif/harness/db.rs (child module of src/db.rs).

#[test]
fn kani_concrete_playback_db_meta_damage_type_byte_3608233943081892642() {
    let concrete_vals: Vec<Vec<u8>> = vec![
        // 2
        vec![2],
        // 8ul
        vec![8, 0, 0, 0, 0, 0, 0, 0],
        // 2
        vec![2],
    ];
    kani::concrete_playback_run(concrete_vals, db_meta_damage_type_byte);
}
