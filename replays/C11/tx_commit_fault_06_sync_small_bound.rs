// Counterexample for property C11, harness tx_commit_fault_06_sync_small_bound (module tx), found by CBMC via Kani and
// REPRODUCED NATIVELY: the harness, compiled as ordinary Rust against the same sources of /repo and the
// environment models, panics with the values below (env/kani_native generator, seed 0).
// jv-replay: harness=tx_commit_fault_06_sync_small_bound seed=0
// panic: src/jv/tx.rs:685:5 :: JV-C11-SWALLOWED: a failed sync is reported as an error
// values drawn by kani::any(), in call order: []
// CBMC failed checks:
//   tx::jv::commit_with_sync_fault_small_bound.assertion.2 -- "JV-C11-SWALLOWED: a failed sync is reported as an error" @ src/jv/tx.rs:718:5 in function tx::jv::commit_with_sync_fault_small_bound
// To re-run: /verif/check C11 --replay /verif/replays/C11/tx_commit_fault_06_sync_small_bound.rs
