// Counterexample for property C11, harness tx_commit_fault_08_short_past_header (module tx), found by CBMC via Kani and
// REPRODUCED NATIVELY: the harness, compiled as ordinary Rust against the same sources of /repo and the
// environment models, panics with the values below (env/kani_native generator, seed 0).
// jv-replay: harness=tx_commit_fault_08_short_past_header seed=0
// panic: src/jv/tx.rs:623:13 :: JV-C11-STALE: the failed commit's header is in the file but the in-memory free list still offers its pages
// values drawn by kani::any(), in call order: []
// CBMC failed checks:
//   tx::jv::commit_with_fault.assertion.23 -- "JV-C11-STALE: the failed commit's header is in the file but the in-memory free list still offers its pages" @ src/jv/tx.rs:650:13 in function tx::jv::commit_with_fault
// To re-run: /verif/check C11 --replay /verif/replays/C11/tx_commit_fault_08_short_past_header.rs
