// Counterexample for property C12, harness meta_hash_covers_canonical (module meta), found by CBMC via Kani.
// Failed checks:
//   meta::jv::meta_hash_covers_canonical.assertion.4 -- "checksum input = the nine fields, big-endian, in declaration order" @ src/jv/meta.rs:79:9 in function meta::jv::meta_hash_covers_canonical
// Native replay (dev profile, same sources + environment models): did not reproduce
// To re-run: /verif/check C12 --replay /verif/replays/C12/meta_hash_covers_canonical.rs
// The test below belongs in /verif/harness/meta.rs (child module of src/meta.rs).

#[test]
fn kani_concrete_playback_meta_hash_covers_canonical_12147314587658807099() {
    let concrete_vals: Vec<Vec<u8>> = vec![
        // 3934114510
        vec![206, 210, 125, 234],
        // 634504611
        vec![163, 197, 209, 37],
        // 327172342
        vec![246, 64, 128, 19],
        // 18374368716499385406ul
        vec![62, 252, 254, 254, 254, 222, 254, 254],
        // 9223372105708470273ul
        vec![1, 0, 0, 8, 16, 0, 0, 128],
        // 9511602481860182017ul
        vec![1, 0, 0, 8, 16, 0, 0, 132],
        // 9332444689976001024ul
        vec![0, 2, 0, 8, 0, 129, 131, 129],
        // 1073742336ul
        vec![0, 2, 0, 64, 0, 0, 0, 0],
        // 2097406ul
        vec![254, 0, 32, 0, 0, 0, 0, 0],
        // 18446744073709027073ul
        vec![1, 255, 247, 255, 255, 255, 255, 255],
    ];
    kani::concrete_playback_run(concrete_vals, meta_hash_covers_canonical);
}
