//! Stand-in for sha3::Sha3_256 used by the *solver* builds: an arbitrary cheap
//! deterministic 32-byte function of (the first 64 bytes of) the input.  SHA3 over
//! symbolic input is far outside what the SAT back end decides; every obligation that
//! reaches the legacy-header path therefore claims "for the checksum being some
//! deterministic function of the 60 serialised bytes", not SHA3 itself.  The real SHA3
//! digest of golden legacy headers is checked natively (lib/native_checks.py).
pub trait Digest {
    fn new() -> Self;
    fn update(&mut self, data: impl AsRef<[u8]>);
    fn finalize(self) -> Out;
}
pub struct Out(pub [u8; 32]);
impl Out {
    pub fn len(&self) -> usize {
        32
    }
}
impl std::ops::Index<std::ops::RangeFull> for Out {
    type Output = [u8];
    fn index(&self, _: std::ops::RangeFull) -> &[u8] {
        &self.0
    }
}
pub struct Sha3_256 {
    acc: [u8; 32],
    n: usize,
}
macro_rules! unroll64 {
    ($i:ident => $b:block) => {
        unroll64!(@ $i $b 0 1 2 3 4 5 6 7 8 9 10 11 12 13 14 15 16 17 18 19 20 21 22 23 24 25 26 27 28 29 30 31
                  32 33 34 35 36 37 38 39 40 41 42 43 44 45 46 47 48 49 50 51 52 53 54 55 56 57 58 59 60 61 62 63);
    };
    (@ $i:ident $b:block $($k:literal)*) => { $( { let $i: usize = $k; $b } )* };
}
impl Digest for Sha3_256 {
    fn new() -> Self {
        Sha3_256 { acc: [0x5a; 32], n: 0 }
    }
    fn update(&mut self, data: impl AsRef<[u8]>) {
        let d = data.as_ref();
        unroll64!(i => {
            if i < d.len() {
                let j = (self.n + i) % 32;
                self.acc[j] = self.acc[j].rotate_left(3) ^ d[i].wrapping_mul(167).wrapping_add(i as u8);
            }
        });
        self.n += d.len();
    }
    fn finalize(self) -> Out {
        Out(self.acc)
    }
}
