//! jv_env — solver-friendly environment models that stand in for the parts of std /
//! the OS that jammdb touches.  Every item here is part of the trusted base of every
//! check that uses it (see DESIGN.md section 3).  Nothing in here is jammdb code.
//!
//! * `fs`    : one in-memory "disk" with an append-only op log, a sync epoch and a
//!             fault plan (which I/O call fails, and whether a write is short first)
//! * `coll`  : fixed-capacity ordered / unordered sets and maps
//! * `ptr`   : leak-model `Rc` / `Arc` (clone copies the pointer, nothing is freed)
//! * `sync`  : single-threaded `Mutex` / `RwLock` with held flags ("would deadlock" = assert)
pub mod coll;
pub mod fs;
pub mod ptr;
pub mod sync;

pub use coll::{BTreeMap, BTreeSet, HashMap, HashSet};
pub use fs::{disk, Disk, File, Metadata, Op, OpenOptions};
pub use ptr::{Arc, Rc};
pub use sync::{Mutex, MutexGuard, RwLock, RwLockReadGuard, RwLockWriteGuard};
