//! Contract-equivalent, solver-friendly stand-ins for the std containers jammdb uses.
//!
//! Fixed capacity (exceeding it is an assertion failure = "outside the stated bound",
//! never silent).  All internal traversals are *unrolled by macro* instead of loops, so a
//! harness's `#[kani::unwind(n)]` bound is spent only on loops of the code under test.
//! Iteration order of `HashMap`/`HashSet` is slot order (std's is unspecified; jammdb must
//! not depend on it).
use std::borrow::Borrow;
use std::ops::Index;

macro_rules! unroll4 {
    ($i:ident => $b:block) => {
        { let $i: usize = 0; $b }
        { let $i: usize = 1; $b }
        { let $i: usize = 2; $b }
        { let $i: usize = 3; $b }
    };
}
macro_rules! unroll4_rev {
    ($i:ident => $b:block) => {
        { let $i: usize = 3; $b }
        { let $i: usize = 2; $b }
        { let $i: usize = 1; $b }
        { let $i: usize = 0; $b }
    };
}
macro_rules! unroll6 {
    ($i:ident => $b:block) => {
        unroll4!($i => $b);
        { let $i: usize = 4; $b }
        { let $i: usize = 5; $b }
    };
}
macro_rules! unroll8 {
    ($i:ident => $b:block) => {
        unroll4!($i => $b);
        { let $i: usize = 4; $b }
        { let $i: usize = 5; $b }
        { let $i: usize = 6; $b }
        { let $i: usize = 7; $b }
    };
}
macro_rules! unroll8_rev {
    ($i:ident => $b:block) => {
        { let $i: usize = 7; $b }
        { let $i: usize = 6; $b }
        { let $i: usize = 5; $b }
        { let $i: usize = 4; $b }
        unroll4_rev!($i => $b);
    };
}

macro_rules! unroll32 {
    ($i:ident => $b:block) => {
        unroll32!(@ $i $b 0 1 2 3 4 5 6 7 8 9 10 11 12 13 14 15 16 17 18 19 20 21 22 23 24 25 26 27 28 29 30 31);
    };
    (@ $i:ident $b:block $($k:literal)*) => { $( { let $i: usize = $k; $b } )* };
}
macro_rules! unroll32_rev {
    ($i:ident => $b:block) => {
        unroll32_rev!(@ $i $b 31 30 29 28 27 26 25 24 23 22 21 20 19 18 17 16 15 14 13 12 11 10 9 8 7 6 5 4 3 2 1 0);
    };
    (@ $i:ident $b:block $($k:literal)*) => { $( { let $i: usize = $k; $b } )* };
}
// the sorted set holds 8 entries by default and 32 with the cargo feature `set32` (profile of the same name:
// harnesses about long free lists)
#[cfg(not(feature = "set32"))]
macro_rules! unroll_set {
    ($i:ident => $b:block) => { unroll8!($i => $b); };
}
#[cfg(not(feature = "set32"))]
macro_rules! unroll_set_rev {
    ($i:ident => $b:block) => { unroll8_rev!($i => $b); };
}
#[cfg(feature = "set32")]
macro_rules! unroll_set {
    ($i:ident => $b:block) => { unroll32!($i => $b); };
}
#[cfg(feature = "set32")]
macro_rules! unroll_set_rev {
    ($i:ident => $b:block) => { unroll32_rev!($i => $b); };
}

// ---------- sorted set (fixed capacity) ----------
#[cfg(not(feature = "set32"))]
pub const SET_CAP: usize = 8;
#[cfg(feature = "set32")]
pub const SET_CAP: usize = 32;
#[derive(Clone, Debug, PartialEq, Eq)]
pub struct BTreeSet<T> {
    a: [T; SET_CAP],
    n: usize,
}
impl<T: Ord + Copy + Default> BTreeSet<T> {
    pub fn new() -> Self {
        BTreeSet { a: [T::default(); SET_CAP], n: 0 }
    }
    pub fn len(&self) -> usize {
        self.n
    }
    pub fn is_empty(&self) -> bool {
        self.n == 0
    }
    pub fn contains(&self, t: &T) -> bool {
        let mut r = false;
        unroll_set!(i => { if i < self.n && &self.a[i] == t { r = true; } });
        r
    }
    pub fn insert(&mut self, t: T) -> bool {
        // position = number of elements < t ; duplicate => false
        let mut pos = 0;
        let mut dup = false;
        unroll_set!(i => {
            if i < self.n {
                if self.a[i] == t { dup = true; }
                if self.a[i] < t { pos += 1; }
            }
        });
        if dup {
            return false;
        }
        assert!(self.n < SET_CAP, "jv_env::BTreeSet capacity exceeded (outside the stated bound)");
        unroll_set_rev!(j => { if j > 0 && j > pos && j <= self.n { self.a[j] = self.a[j - 1]; } });
        self.a[pos] = t;
        self.n += 1;
        true
    }
    pub fn remove(&mut self, t: &T) -> bool {
        let mut pos = SET_CAP;
        unroll_set!(i => { if i < self.n && &self.a[i] == t { pos = i; } });
        if pos == SET_CAP {
            return false;
        }
        unroll_set!(j => { if j + 1 < SET_CAP && j >= pos && j + 1 < self.n { self.a[j] = self.a[j + 1]; } });
        self.n -= 1;
        true
    }
    /// ascending iteration (a slice iterator: its trip count is the set's length)
    pub fn iter(&self) -> std::slice::Iter<'_, T> {
        self.a[..self.n].iter()
    }
    /// harness-side constructor: append an element greater than every present one
    pub fn jv_push_back(&mut self, t: T) {
        assert!(self.n < SET_CAP);
        self.a[self.n] = t;
        self.n += 1;
    }
    /// harness-side: i-th smallest element
    pub fn jv_nth(&self, i: usize) -> T {
        self.a[i]
    }
}
impl<T: Ord + Copy + Default> FromIterator<T> for BTreeSet<T> {
    fn from_iter<I: IntoIterator<Item = T>>(it: I) -> Self {
        let mut s = BTreeSet::new();
        for x in it {
            s.insert(x);
        }
        s
    }
}

// ---------- sorted map (fixed capacity) ----------
pub const BMAP_CAP: usize = 4;
pub struct BTreeMap<K, V> {
    a: [Option<(K, V)>; BMAP_CAP],
    n: usize,
}
impl<K: Clone, V: Clone> Clone for BTreeMap<K, V> {
    fn clone(&self) -> Self {
        BTreeMap { a: [self.a[0].clone(), self.a[1].clone(), self.a[2].clone(), self.a[3].clone()], n: self.n }
    }
}
pub struct Entry<'a, K, V> {
    m: &'a mut BTreeMap<K, V>,
    k: K,
}
impl<'a, K: Ord + Copy, V> Entry<'a, K, V> {
    pub fn or_insert_with<F: FnOnce() -> V>(self, f: F) -> &'a mut V {
        let i = match self.m.find(&self.k) {
            Some(i) => i,
            None => self.m.insert_at_sorted(self.k, f()),
        };
        &mut self.m.a[i].as_mut().unwrap().1
    }
}
impl<K: Ord + Copy, V> BTreeMap<K, V> {
    pub fn new() -> Self {
        BTreeMap { a: [None, None, None, None], n: 0 }
    }
    pub fn len(&self) -> usize {
        self.n
    }
    pub fn is_empty(&self) -> bool {
        self.n == 0
    }
    fn find(&self, k: &K) -> Option<usize> {
        let mut r = None;
        unroll4_rev!(i => { if let Some(e) = &self.a[i] { if &e.0 == k { r = Some(i); } } });
        r
    }
    fn insert_at_sorted(&mut self, k: K, v: V) -> usize {
        assert!(self.n < BMAP_CAP, "jv_env::BTreeMap capacity exceeded (outside the stated bound)");
        let mut pos = 0;
        unroll4!(i => { if let Some(e) = &self.a[i] { if e.0 < k { pos += 1; } } });
        unroll4_rev!(j => { if j > 0 && j > pos { self.a[j] = self.a[j - 1].take(); } });
        self.a[pos] = Some((k, v));
        self.n += 1;
        pos
    }
    pub fn entry(&mut self, k: K) -> Entry<'_, K, V> {
        Entry { m: self, k }
    }
    /// harness-side constructor: append an entry whose key is greater than every present key
    pub fn jv_push_back(&mut self, k: K, v: V) {
        assert!(self.n < BMAP_CAP);
        self.a[self.n] = Some((k, v));
        self.n += 1;
    }
    pub fn insert(&mut self, k: K, val: V) -> Option<V> {
        match self.find(&k) {
            Some(i) => {
                let old = self.a[i].take();
                self.a[i] = Some((k, val));
                old.map(|e| e.1)
            }
            None => {
                self.insert_at_sorted(k, val);
                None
            }
        }
    }
    pub fn get(&self, k: &K) -> Option<&V> {
        match self.find(k) {
            Some(i) => self.a[i].as_ref().map(|e| &e.1),
            None => None,
        }
    }
    pub fn remove(&mut self, k: &K) -> Option<V> {
        match self.find(k) {
            Some(i) => {
                let old = self.a[i].take();
                unroll4!(j => { if j + 1 < BMAP_CAP && j >= i { self.a[j] = self.a[j + 1].take(); } });
                self.n -= 1;
                old.map(|e| e.1)
            }
            None => None,
        }
    }
    /// ascending iteration over the (at most BMAP_CAP) slots
    pub fn keys(&self) -> impl Iterator<Item = &K> + '_ {
        self.a.iter().filter_map(|e| e.as_ref().map(|e| &e.0))
    }
    pub fn iter(&self) -> impl Iterator<Item = (&K, &V)> + '_ {
        self.a.iter().filter_map(|e| e.as_ref().map(|e| (&e.0, &e.1)))
    }
}

// ---------- unordered map (fixed capacity association array) ----------
pub const MAP_CAP: usize = 6;
pub struct HashMap<K, V> {
    a: [Option<(K, V)>; MAP_CAP],
}
impl<K: Eq, V> HashMap<K, V> {
    pub fn new() -> Self {
        HashMap { a: [None, None, None, None, None, None] }
    }
    pub fn len(&self) -> usize {
        let mut n = 0;
        unroll6!(i => { if self.a[i].is_some() { n += 1; } });
        n
    }
    pub fn is_empty(&self) -> bool {
        self.len() == 0
    }
    fn pos<Q: ?Sized + Eq>(&self, k: &Q) -> Option<usize>
    where
        K: Borrow<Q>,
    {
        let mut r = None;
        unroll6!(i => { if r.is_none() { if let Some(e) = &self.a[i] { if e.0.borrow() == k { r = Some(i); } } } });
        r
    }
    pub fn contains_key<Q: ?Sized + Eq>(&self, k: &Q) -> bool
    where
        K: Borrow<Q>,
    {
        self.pos(k).is_some()
    }
    pub fn get<Q: ?Sized + Eq>(&self, k: &Q) -> Option<&V>
    where
        K: Borrow<Q>,
    {
        match self.pos(k) {
            Some(i) => self.a[i].as_ref().map(|e| &e.1),
            None => None,
        }
    }
    pub fn get_mut<Q: ?Sized + Eq>(&mut self, k: &Q) -> Option<&mut V>
    where
        K: Borrow<Q>,
    {
        match self.pos(k) {
            Some(i) => self.a[i].as_mut().map(|e| &mut e.1),
            None => None,
        }
    }
    pub fn insert(&mut self, k: K, val: V) -> Option<V> {
        match self.pos(&k) {
            Some(i) => {
                let old = self.a[i].take();
                self.a[i] = Some((k, val));
                old.map(|e| e.1)
            }
            None => {
                let mut slot = MAP_CAP;
                unroll6!(i => { if slot == MAP_CAP && self.a[i].is_none() { slot = i; } });
                assert!(slot < MAP_CAP, "jv_env::HashMap capacity exceeded (outside the stated bound)");
                self.a[slot] = Some((k, val));
                None
            }
        }
    }
    pub fn remove<Q: ?Sized + Eq>(&mut self, k: &Q) -> Option<V>
    where
        K: Borrow<Q>,
    {
        match self.pos(k) {
            Some(i) => self.a[i].take().map(|e| e.1),
            None => None,
        }
    }
    pub fn iter(&self) -> impl Iterator<Item = (&K, &V)> + '_ {
        self.a.iter().filter_map(|e| e.as_ref().map(|e| (&e.0, &e.1)))
    }
    pub fn values(&self) -> impl Iterator<Item = &V> + '_ {
        self.a.iter().filter_map(|e| e.as_ref().map(|e| &e.1))
    }
}
impl<K: Eq, V, Q: ?Sized + Eq> Index<&Q> for HashMap<K, V>
where
    K: Borrow<Q>,
{
    type Output = V;
    fn index(&self, k: &Q) -> &V {
        self.get(k).expect("no entry found for key")
    }
}
impl<K: Eq, V> IntoIterator for HashMap<K, V> {
    type Item = (K, V);
    type IntoIter = std::iter::Flatten<std::array::IntoIter<Option<(K, V)>, MAP_CAP>>;
    fn into_iter(self) -> Self::IntoIter {
        self.a.into_iter().flatten()
    }
}

// ---------- unordered set of page ids (used by the built-in consistency check) ----------
pub const HSET_CAP: usize = 16;
#[derive(Clone, Debug)]
pub struct HashSet<T> {
    a: [Option<T>; HSET_CAP],
}
impl<T: Eq + Copy> HashSet<T> {
    pub fn new() -> Self {
        HashSet { a: [None; HSET_CAP] }
    }
    pub fn is_empty(&self) -> bool {
        let mut e = true;
        unroll8!(i => { if self.a[i].is_some() || self.a[i + 8].is_some() { e = false; } });
        e
    }
    pub fn insert(&mut self, t: T) -> bool {
        let mut has = false;
        let mut slot = HSET_CAP;
        unroll8_rev!(i => {
            if self.a[i + 8] == Some(t) { has = true; }
            if self.a[i + 8].is_none() { slot = i + 8; }
        });
        unroll8_rev!(i => {
            if self.a[i] == Some(t) { has = true; }
            if self.a[i].is_none() { slot = i; }
        });
        if has {
            return false;
        }
        assert!(slot < HSET_CAP, "jv_env::HashSet capacity exceeded (outside the stated bound)");
        self.a[slot] = Some(t);
        true
    }
    pub fn remove(&mut self, t: &T) -> bool {
        let mut r = false;
        unroll8!(i => {
            if self.a[i] == Some(*t) { self.a[i] = None; r = true; }
            if self.a[i + 8] == Some(*t) { self.a[i + 8] = None; r = true; }
        });
        r
    }
    pub fn contains(&self, t: &T) -> bool {
        let mut r = false;
        unroll8!(i => { if self.a[i] == Some(*t) || self.a[i + 8] == Some(*t) { r = true; } });
        r
    }
}
impl<T: Eq + Copy> FromIterator<T> for HashSet<T> {
    fn from_iter<I: IntoIterator<Item = T>>(it: I) -> Self {
        let mut s = HashSet::new();
        for x in it {
            s.insert(x);
        }
        s
    }
}
