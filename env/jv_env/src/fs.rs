//! In-memory model of the single file a database lives in.
//!
//! Contract kept: positional `write` at the current seek offset (may fail, or be short
//! and then fail, according to the fault plan), `seek(Start)`, `metadata().len()`,
//! `flush`, `sync_all` (may fail), `allocate` (fs4: grows, may fail).  Every effect is
//! recorded in an append-only op log together with the number of syncs completed before
//! it (its "epoch"), so a harness can build crash images (prefixes / unsynced subsets).
//!
//! Dropped: paths, permissions, several files, `SeekFrom::{Current,End}`.
use std::io::{self, Seek, SeekFrom, Write};
use std::path::Path;

/// Bytes of model disk. 16 pages of 256 bytes.
pub const CAP: usize = 4096;
/// Maximum number of logged operations (exceeding it is an assertion: outside the bound).
pub const MAXOPS: usize = 16;

pub const OP_WRITE: u8 = 1;
pub const OP_SYNC: u8 = 2;
pub const OP_ALLOCATE: u8 = 3;
pub const OP_FLUSH: u8 = 4;

pub const NO_FAULT: usize = usize::MAX;

#[derive(Clone, Copy)]
pub struct Op {
    pub kind: u8,
    pub off: u64,
    pub len: u64,
    /// number of sync_all calls that had completed when this op was issued
    pub epoch: u32,
}

pub struct Disk {
    /// the file's bytes, stored as 64-bit words (CBMC handles struct views over a word-typed
    /// array far better than over a byte array); use `bytes()` / `byte()` / `set_byte()`
    pub words: [u64; CAP / 8],
    pub len: usize,
    pub ops: [Op; MAXOPS],
    pub nops: usize,
    pub epoch: u32,
    /// fallible I/O calls issued so far: metadata, allocate, seek, write, flush, sync_all
    pub ncalls: usize,
    /// the call with this index fails (NO_FAULT: none)
    pub fail_at: usize,
    /// a second, later failing call (NO_FAULT: none)
    pub fail_at2: usize,
    /// if the failing call is a write of more than `short_len` bytes and `short_len > 0`,
    /// it first succeeds with exactly `short_len` bytes and the *next* call fails instead
    pub short_len: usize,
    /// a write reached beyond CAP (the bytes were not stored)
    pub oob: bool,
    pub locked: bool,
    /// number of calls that returned an error
    pub nfailed: usize,
}

const NOP: Op = Op { kind: 0, off: 0, len: 0, epoch: 0 };

pub static mut DISK: Disk = Disk {
    words: [0; CAP / 8],
    len: 0,
    ops: [NOP; MAXOPS],
    nops: 0,
    epoch: 0,
    ncalls: 0,
    fail_at: NO_FAULT,
    fail_at2: NO_FAULT,
    short_len: 0,
    oob: false,
    locked: false,
    nfailed: 0,
};

#[inline]
pub fn disk() -> &'static mut Disk {
    unsafe { &mut *std::ptr::addr_of_mut!(DISK) }
}

fn eio() -> io::Error {
    io::Error::from_raw_os_error(5)
}

impl Disk {
    #[inline]
    pub fn as_ptr(&self) -> *const u8 {
        self.words.as_ptr() as *const u8
    }
    #[inline]
    pub fn as_mut_ptr(&mut self) -> *mut u8 {
        self.words.as_mut_ptr() as *mut u8
    }
    #[inline]
    pub fn bytes(&self) -> &[u8] {
        unsafe { std::slice::from_raw_parts(self.as_ptr(), CAP) }
    }
    #[inline]
    pub fn bytes_mut(&mut self) -> &mut [u8] {
        unsafe { std::slice::from_raw_parts_mut(self.as_mut_ptr(), CAP) }
    }
    #[inline]
    pub fn byte(&self, off: usize) -> u8 {
        (self.words[off / 8] >> (8 * (off % 8))) as u8
    }
    #[inline]
    pub fn set_byte(&mut self, off: usize, v: u8) {
        let sh = 8 * (off % 8);
        self.words[off / 8] = (self.words[off / 8] & !(0xffu64 << sh)) | ((v as u64) << sh);
    }
    #[inline]
    pub fn word(&self, off: usize) -> u64 {
        self.words[off / 8]
    }
    fn log(&mut self, kind: u8, off: u64, len: u64) {
        assert!(self.nops < MAXOPS, "jv_env::fs op log capacity exceeded (outside the stated bound)");
        self.ops[self.nops] = Op { kind, off, len, epoch: self.epoch };
        self.nops += 1;
    }
    /// true when the call about to be issued must fail
    fn fault(&mut self) -> bool {
        let i = self.ncalls;
        self.ncalls += 1;
        if i == self.fail_at || i == self.fail_at2 {
            self.nfailed += 1;
            true
        } else {
            false
        }
    }
    pub fn nwrites(&self) -> usize {
        let mut n = 0;
        let mut i = 0;
        while i < MAXOPS {
            if i < self.nops && self.ops[i].kind == OP_WRITE {
                n += 1;
            }
            i += 1;
        }
        n
    }
}

pub struct File {
    pos: u64,
}

pub struct Metadata {
    len: u64,
}
impl Metadata {
    pub fn len(&self) -> u64 {
        self.len
    }
}

impl File {
    /// harness-side constructor: a handle on the model disk
    pub fn raw() -> File {
        File { pos: 0 }
    }
    pub fn metadata(&self) -> io::Result<Metadata> {
        let d = disk();
        if d.fault() {
            return Err(eio());
        }
        Ok(Metadata { len: d.len as u64 })
    }
    pub fn sync_all(&self) -> io::Result<()> {
        let d = disk();
        if d.fault() {
            return Err(eio());
        }
        d.log(OP_SYNC, 0, 0);
        d.epoch += 1;
        Ok(())
    }
    /// fs4::FileExt::allocate
    pub fn allocate_model(&self, len: u64) -> io::Result<()> {
        let d = disk();
        if d.fault() {
            return Err(eio());
        }
        d.log(OP_ALLOCATE, 0, len);
        if len as usize > CAP {
            // the model disk cannot hold it: recorded, length clamped (harnesses that
            // care assert on the logged length instead of on `len`)
            d.len = CAP;
            return Ok(());
        }
        if (len as usize) > d.len {
            d.len = len as usize;
        }
        Ok(())
    }
    pub fn lock_model(&self) -> io::Result<()> {
        disk().locked = true;
        Ok(())
    }
}

impl Seek for File {
    fn seek(&mut self, pos: SeekFrom) -> io::Result<u64> {
        if disk().fault() {
            return Err(eio());
        }
        match pos {
            SeekFrom::Start(p) => {
                self.pos = p;
                Ok(p)
            }
            _ => Err(io::Error::from_raw_os_error(22)),
        }
    }
}

impl Write for File {
    fn write(&mut self, data: &[u8]) -> io::Result<usize> {
        let d = disk();
        let mut n = data.len();
        if d.fault() {
            if d.short_len > 0 && d.short_len < n {
                // short write now, error on the next call
                n = d.short_len;
                d.short_len = 0; // once: the next call is the one that fails
                d.nfailed -= 1;
                if d.fail_at == d.ncalls - 1 {
                    d.fail_at = d.ncalls;
                } else {
                    d.fail_at2 = d.ncalls;
                }
            } else {
                return Err(eio());
            }
        }
        let start = self.pos as usize;
        let end = start + n;
        d.log(OP_WRITE, self.pos, n as u64);
        if end > CAP {
            d.oob = true;
        } else {
            d.bytes_mut()[start..end].copy_from_slice(&data[..n]);
            if end > d.len {
                d.len = end;
            }
        }
        self.pos = end as u64;
        Ok(n)
    }
    /// std's default `write_all` retries on `ErrorKind::Interrupted`, which it reads out of io::Error's
    /// bit-packed representation; CBMC cannot fold that test, so after a failed write the default loop would
    /// be unwound to the bound. The model never returns `Interrupted`: same semantics, written directly.
    fn write_all(&mut self, mut buf: &[u8]) -> io::Result<()> {
        let mut guard = 0;
        while !buf.is_empty() {
            match self.write(buf) {
                Ok(0) => return Err(io::Error::from_raw_os_error(28)),
                Ok(n) => buf = &buf[n..],
                Err(e) => return Err(e),
            }
            guard += 1;
            assert!(guard <= 3, "jv_env::fs: more than one short write per call is outside the model");
        }
        Ok(())
    }
    fn flush(&mut self) -> io::Result<()> {
        let d = disk();
        if d.fault() {
            return Err(eio());
        }
        d.log(OP_FLUSH, 0, 0);
        Ok(())
    }
}

#[derive(Default)]
pub struct OpenOptions {
    create_new: bool,
}
impl OpenOptions {
    pub fn new() -> Self {
        Self::default()
    }
    pub fn write(&mut self, _: bool) -> &mut Self {
        self
    }
    pub fn read(&mut self, _: bool) -> &mut Self {
        self
    }
    pub fn create_new(&mut self, c: bool) -> &mut Self {
        self.create_new = c;
        self
    }
    pub fn custom_flags(&mut self, _: i32) -> &mut Self {
        self
    }
    pub fn open<P: AsRef<Path>>(&self, _path: P) -> io::Result<File> {
        Ok(File { pos: 0 })
    }
}
