//! Leak-model shared pointers: `clone` copies the pointer, nothing is ever freed, no
//! reference counts. Consequence: nothing about deallocation is decided by any check.
pub struct Rc<T: ?Sized>(*const T);
impl<T> Rc<T> { pub fn new(t: T) -> Self { Rc(Box::leak(Box::new(t)) as *const T) } }
impl<T: ?Sized> Clone for Rc<T> { fn clone(&self) -> Self { Rc(self.0) } }
impl<T: ?Sized> std::ops::Deref for Rc<T> { type Target = T; fn deref(&self) -> &T { unsafe { &*self.0 } } }
impl<T: ?Sized + std::fmt::Debug> std::fmt::Debug for Rc<T> { fn fmt(&self, f: &mut std::fmt::Formatter<'_>) -> std::fmt::Result { (**self).fmt(f) } }
pub struct Arc<T: ?Sized>(*const T);
unsafe impl<T: ?Sized + Sync + Send> Send for Arc<T> {}
unsafe impl<T: ?Sized + Sync + Send> Sync for Arc<T> {}
impl<T> Arc<T> { pub fn new(t: T) -> Self { Arc(Box::leak(Box::new(t)) as *const T) } }
impl<T: ?Sized> Clone for Arc<T> { fn clone(&self) -> Self { Arc(self.0) } }
impl<T: ?Sized> std::ops::Deref for Arc<T> { type Target = T; fn deref(&self) -> &T { unsafe { &*self.0 } } }
