//! Single-threaded lock models. `lock()`/`read()`/`write()` never block: acquiring a
//! lock that is already held in a conflicting mode is an assertion failure ("would
//! deadlock on one thread"). Poisoning does not exist; the `Result` shape of std is kept
//! so that `?` and `.unwrap()` in the code under test compile unchanged.
use std::cell::{Cell, UnsafeCell};
use std::ops::{Deref, DerefMut};
use std::sync::PoisonError;

pub type LockResult<G> = Result<G, PoisonError<G>>;

pub struct Mutex<T> {
    held: Cell<bool>,
    v: UnsafeCell<T>,
}
unsafe impl<T: Send> Send for Mutex<T> {}
unsafe impl<T: Send> Sync for Mutex<T> {}
pub struct MutexGuard<'a, T> {
    m: &'a Mutex<T>,
}
impl<T> Mutex<T> {
    pub fn new(t: T) -> Self {
        Mutex { held: Cell::new(false), v: UnsafeCell::new(t) }
    }
    pub fn lock(&self) -> LockResult<MutexGuard<'_, T>> {
        assert!(!self.held.get(), "jv_env::Mutex::lock on a held mutex (would deadlock)");
        self.held.set(true);
        Ok(MutexGuard { m: self })
    }
    /// harness-side: is the mutex currently held?
    pub fn is_held(&self) -> bool {
        self.held.get()
    }
    /// harness-side: peek without locking
    pub fn peek(&self) -> &T {
        unsafe { &*self.v.get() }
    }
}
impl<'a, T> Deref for MutexGuard<'a, T> {
    type Target = T;
    fn deref(&self) -> &T {
        unsafe { &*self.m.v.get() }
    }
}
impl<'a, T> DerefMut for MutexGuard<'a, T> {
    fn deref_mut(&mut self) -> &mut T {
        unsafe { &mut *self.m.v.get() }
    }
}
impl<'a, T> Drop for MutexGuard<'a, T> {
    fn drop(&mut self) {
        self.m.held.set(false);
    }
}

pub struct RwLock<T> {
    readers: Cell<usize>,
    writer: Cell<bool>,
    v: UnsafeCell<T>,
}
unsafe impl<T: Send> Send for RwLock<T> {}
unsafe impl<T: Send + Sync> Sync for RwLock<T> {}
pub struct RwLockReadGuard<'a, T> {
    l: &'a RwLock<T>,
}
pub struct RwLockWriteGuard<'a, T> {
    l: &'a RwLock<T>,
}
impl<T> RwLock<T> {
    pub fn new(t: T) -> Self {
        RwLock { readers: Cell::new(0), writer: Cell::new(false), v: UnsafeCell::new(t) }
    }
    pub fn read(&self) -> LockResult<RwLockReadGuard<'_, T>> {
        assert!(!self.writer.get(), "jv_env::RwLock::read while write-locked (would deadlock)");
        self.readers.set(self.readers.get() + 1);
        Ok(RwLockReadGuard { l: self })
    }
    pub fn write(&self) -> LockResult<RwLockWriteGuard<'_, T>> {
        assert!(
            !self.writer.get() && self.readers.get() == 0,
            "jv_env::RwLock::write while locked (would deadlock)"
        );
        self.writer.set(true);
        Ok(RwLockWriteGuard { l: self })
    }
    pub fn readers(&self) -> usize {
        self.readers.get()
    }
    pub fn is_write_locked(&self) -> bool {
        self.writer.get()
    }
}
impl<'a, T> Deref for RwLockReadGuard<'a, T> {
    type Target = T;
    fn deref(&self) -> &T {
        unsafe { &*self.l.v.get() }
    }
}
impl<'a, T> Drop for RwLockReadGuard<'a, T> {
    fn drop(&mut self) {
        self.l.readers.set(self.l.readers.get() - 1);
    }
}
impl<'a, T> Deref for RwLockWriteGuard<'a, T> {
    type Target = T;
    fn deref(&self) -> &T {
        unsafe { &*self.l.v.get() }
    }
}
impl<'a, T> DerefMut for RwLockWriteGuard<'a, T> {
    fn deref_mut(&mut self) -> &mut T {
        unsafe { &mut *self.l.v.get() }
    }
}
impl<'a, T> Drop for RwLockWriteGuard<'a, T> {
    fn drop(&mut self) {
        self.l.writer.set(false);
    }
}
