//! Native differential tests of the container models against the std types they stand in
//! for (same pseudo-random operation strings, compare every observable result).  These
//! guard the trusted base; they are not part of any verdict.
use std::collections as sc;

struct Lcg(u64);
impl Lcg {
    fn next(&mut self) -> u64 {
        self.0 = self.0.wrapping_mul(6364136223846793005).wrapping_add(1442695040888963407);
        self.0 >> 33
    }
}

#[test]
fn btreeset_matches_std() {
    for seed in 0..200u64 {
        let mut r = Lcg(seed);
        let mut m = jv_env::BTreeSet::<u64>::new();
        let mut s = sc::BTreeSet::<u64>::new();
        for _ in 0..60 {
            let v = r.next() % 12;
            match r.next() % 4 {
                0 | 1 => {
                    if s.len() < 8 || s.contains(&v) {
                        assert_eq!(m.insert(v), s.insert(v));
                    }
                }
                2 => assert_eq!(m.remove(&v), s.remove(&v)),
                _ => assert_eq!(m.contains(&v), s.contains(&v)),
            }
            assert_eq!(m.len(), s.len());
            assert_eq!(m.is_empty(), s.is_empty());
            assert_eq!(m.iter().cloned().collect::<Vec<_>>(), s.iter().cloned().collect::<Vec<_>>());
        }
        let c = m.clone();
        assert_eq!(c.iter().cloned().collect::<Vec<_>>(), s.iter().cloned().collect::<Vec<_>>());
    }
}

#[test]
fn btreemap_matches_std() {
    for seed in 0..200u64 {
        let mut r = Lcg(seed + 1000);
        let mut m = jv_env::BTreeMap::<u64, Vec<u64>>::new();
        let mut s = sc::BTreeMap::<u64, Vec<u64>>::new();
        for _ in 0..60 {
            let k = r.next() % 7;
            let v = r.next() % 100;
            match r.next() % 5 {
                0 => {
                    if s.len() < 4 || s.contains_key(&k) {
                        m.entry(k).or_insert_with(Vec::new).push(v);
                        s.entry(k).or_insert_with(Vec::new).push(v);
                    }
                }
                1 => {
                    if s.len() < 4 || s.contains_key(&k) {
                        assert_eq!(m.insert(k, vec![v]), s.insert(k, vec![v]));
                    }
                }
                2 => assert_eq!(m.remove(&k), s.remove(&k)),
                _ => assert_eq!(m.get(&k), s.get(&k)),
            }
            assert_eq!(m.len(), s.len());
            assert_eq!(m.keys().cloned().collect::<Vec<_>>(), s.keys().cloned().collect::<Vec<_>>());
            assert_eq!(
                m.iter().map(|(k, v)| (*k, v.clone())).collect::<Vec<_>>(),
                s.iter().map(|(k, v)| (*k, v.clone())).collect::<Vec<_>>()
            );
        }
        let c = m.clone();
        assert_eq!(c.keys().cloned().collect::<Vec<_>>(), s.keys().cloned().collect::<Vec<_>>());
    }
}

#[test]
fn hashmap_matches_std() {
    for seed in 0..200u64 {
        let mut r = Lcg(seed + 2000);
        let mut m = jv_env::HashMap::<u64, u64>::new();
        let mut s = sc::HashMap::<u64, u64>::new();
        for _ in 0..60 {
            let k = r.next() % 9;
            let v = r.next() % 100;
            match r.next() % 5 {
                0 | 1 => {
                    if s.len() < 6 || s.contains_key(&k) {
                        assert_eq!(m.insert(k, v), s.insert(k, v));
                    }
                }
                2 => assert_eq!(m.remove(&k), s.remove(&k)),
                3 => assert_eq!(m.get(&k), s.get(&k)),
                _ => assert_eq!(m.contains_key(&k), s.contains_key(&k)),
            }
            assert_eq!(m.len(), s.len());
            let mut a: Vec<_> = m.iter().map(|(k, v)| (*k, *v)).collect();
            let mut b: Vec<_> = s.iter().map(|(k, v)| (*k, *v)).collect();
            a.sort();
            b.sort();
            assert_eq!(a, b);
            let mut a: Vec<_> = m.values().cloned().collect();
            let mut b: Vec<_> = s.values().cloned().collect();
            a.sort();
            b.sort();
            assert_eq!(a, b);
        }
    }
}

#[test]
fn hashset_matches_std() {
    for seed in 0..200u64 {
        let mut r = Lcg(seed + 3000);
        let mut m: jv_env::HashSet<u64> = (2..10u64).collect();
        let mut s: sc::HashSet<u64> = (2..10u64).collect();
        for _ in 0..40 {
            let v = r.next() % 14;
            match r.next() % 3 {
                0 => {
                    if s.len() < 16 || s.contains(&v) {
                        assert_eq!(m.insert(v), s.insert(v));
                    }
                }
                1 => assert_eq!(m.remove(&v), s.remove(&v)),
                _ => assert_eq!(m.contains(&v), s.contains(&v)),
            }
            assert_eq!(m.is_empty(), s.is_empty());
        }
    }
}

#[test]
fn file_model_basics() {
    use std::io::{Seek, SeekFrom, Write};
    let d = jv_env::disk();
    let mut f = jv_env::File::raw();
    f.seek(SeekFrom::Start(16)).unwrap();
    f.write_all(&[1, 2, 3, 4, 5, 6, 7, 8, 9]).unwrap();
    assert_eq!(d.byte(16), 1);
    assert_eq!(d.byte(24), 9);
    assert_eq!(d.len, 25);
    assert_eq!(f.metadata().unwrap().len(), 25);
    f.sync_all().unwrap();
    assert_eq!(d.epoch, 1);
    // fault plan: the next write is short (8 bytes), then the following call fails
    d.fail_at = d.ncalls;
    d.short_len = 8;
    f.seek(SeekFrom::Start(32)).unwrap_err(); // the seek itself is the failing call
    d.fail_at = d.ncalls + 1;
    f.seek(SeekFrom::Start(32)).unwrap();
    let r = f.write_all(&[7u8; 16]);
    assert!(r.is_err());
    assert_eq!(d.byte(32), 7);
    assert_eq!(d.byte(39), 7);
    assert_eq!(d.byte(40), 0);
}
