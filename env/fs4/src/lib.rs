//! Model of the part of fs4::FileExt jammdb uses, over the jv_env model file.
use std::io::Result;
pub trait FileExt {
    fn lock_exclusive(&self) -> Result<()>;
    fn allocate(&self, len: u64) -> Result<()>;
}
impl FileExt for jv_env::File {
    fn lock_exclusive(&self) -> Result<()> {
        self.lock_model()
    }
    fn allocate(&self, len: u64) -> Result<()> {
        self.allocate_model(len)
    }
}
