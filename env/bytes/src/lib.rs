//! Stand-in for the part of the `bytes` crate jammdb uses: an immutable shared byte string
//! (`Bytes`, leak model: never freed, no vtable) and a small append-only builder
//! (`BytesMut` + `BufMut::writer()`), fixed capacity 64 bytes, loop-free appends of at most
//! 8 bytes at a time (all jammdb does with it is serialise the legacy header: 9 writes of
//! 4 or 8 bytes).  Exceeding a capacity is an assertion failure (outside the stated bound).
use std::io;
#[derive(Clone, Copy, Debug, PartialEq, Eq, Hash)]
pub struct Bytes(&'static [u8]);
impl Bytes {
    pub fn copy_from_slice(s: &[u8]) -> Bytes {
        Bytes(Box::leak(s.to_vec().into_boxed_slice()))
    }
    pub fn from_static(s: &'static [u8]) -> Bytes {
        Bytes(s)
    }
    pub fn len(&self) -> usize {
        self.0.len()
    }
    pub fn is_empty(&self) -> bool {
        self.0.is_empty()
    }
}
impl std::ops::Deref for Bytes {
    type Target = [u8];
    fn deref(&self) -> &[u8] {
        self.0
    }
}
impl AsRef<[u8]> for Bytes {
    fn as_ref(&self) -> &[u8] {
        self.0
    }
}
pub const MUT_CAP: usize = 64;
pub struct BytesMut {
    buf: [u8; MUT_CAP],
    n: usize,
}
impl BytesMut {
    pub fn new() -> Self {
        BytesMut { buf: [0; MUT_CAP], n: 0 }
    }
    pub fn freeze(self) -> Bytes {
        let n = self.n;
        let b: &'static mut [u8; MUT_CAP] = Box::leak(Box::new(self.buf));
        Bytes(&b[..n])
    }
}
pub trait BufMut: Sized {
    fn writer(self) -> Writer<Self> {
        Writer(self)
    }
}
impl BufMut for BytesMut {}
pub struct Writer<B>(B);
impl<B> Writer<B> {
    pub fn into_inner(self) -> B {
        self.0
    }
}
macro_rules! put {
    ($m:expr, $d:ident, $i:literal) => {
        if $i < $d.len() {
            $m.buf[$m.n + $i] = $d[$i];
        }
    };
}
impl io::Write for Writer<BytesMut> {
    fn write(&mut self, d: &[u8]) -> io::Result<usize> {
        let m = &mut self.0;
        assert!(d.len() <= 8 || cfg!(not(kani)), "bytes model: appends longer than 8 bytes are outside the model");
        assert!(m.n + d.len() <= MUT_CAP, "bytes model: capacity exceeded (outside the stated bound)");
        if d.len() <= 8 {
            put!(m, d, 0);
            put!(m, d, 1);
            put!(m, d, 2);
            put!(m, d, 3);
            put!(m, d, 4);
            put!(m, d, 5);
            put!(m, d, 6);
            put!(m, d, 7);
        } else {
            m.buf[m.n..m.n + d.len()].copy_from_slice(d);
        }
        m.n += d.len();
        Ok(d.len())
    }
    fn flush(&mut self) -> io::Result<()> {
        Ok(())
    }
}
