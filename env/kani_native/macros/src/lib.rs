//! Pass-through stand-ins for Kani's attribute macros, for NATIVE replay builds of the harnesses.
use proc_macro::TokenStream;
#[proc_macro_attribute]
pub fn proof(_a: TokenStream, item: TokenStream) -> TokenStream {
    item
}
#[proc_macro_attribute]
pub fn unwind(_a: TokenStream, item: TokenStream) -> TokenStream {
    item
}
#[proc_macro_attribute]
pub fn stub(_a: TokenStream, item: TokenStream) -> TokenStream {
    item
}
#[proc_macro_attribute]
pub fn solver(_a: TokenStream, item: TokenStream) -> TokenStream {
    item
}
#[proc_macro_attribute]
pub fn should_panic(_a: TokenStream, item: TokenStream) -> TokenStream {
    item
}
