//! A native stand-in for the `kani` crate, used only to REPLAY harnesses as ordinary code:
//! `kani::any()` draws from a seeded generator (biased towards small and boundary values so
//! that typical `assume`s are satisfiable), `kani::assume(false)` abandons the run (the
//! driver discards it), `kani::cover!` is a no-op.  Every drawn value is logged so a
//! reproducing run can be written down.  Nothing here takes part in any verdict: a
//! violation is reported only when the same harness, run natively with concrete values,
//! fails the same way CBMC said it would.
pub use kani_macros_native::{proof, should_panic, solver, stub, unwind};
use std::cell::RefCell;

pub struct AssumeFailed;

thread_local! {
    static STATE: RefCell<(u64, Vec<String>)> = RefCell::new((0x9E37_79B9_7F4A_7C15, Vec::new()));
}

pub fn jv_seed(seed: u64) {
    STATE.with(|s| {
        let mut s = s.borrow_mut();
        s.0 = seed.wrapping_mul(0x9E37_79B9_7F4A_7C15) ^ 0xD1B5_4A32_D192_ED03;
        s.1.clear();
    })
}
pub fn jv_log() -> Vec<String> {
    STATE.with(|s| s.borrow().1.clone())
}
fn next() -> u64 {
    STATE.with(|s| {
        let mut s = s.borrow_mut();
        let mut x = s.0;
        x ^= x << 13;
        x ^= x >> 7;
        x ^= x << 17;
        s.0 = x;
        x.wrapping_mul(0x2545_F491_4F6C_DD1D)
    })
}
fn record(ty: &str, v: String) {
    STATE.with(|s| s.borrow_mut().1.push(format!("{}={}", ty, v)))
}
/// a 64-bit value biased towards small numbers and boundaries
fn biased() -> u64 {
    let r = next();
    match r % 8 {
        0 | 1 | 2 => (r >> 8) % 12,
        3 => (r >> 8) % 300,
        4 => u64::MAX - ((r >> 8) % 3),
        5 => 1u64 << ((r >> 8) % 64),
        _ => next(),
    }
}

pub trait Arbitrary: Sized {
    fn any() -> Self;
}
macro_rules! int_arb {
    ($($t:ty),*) => {$(
        impl Arbitrary for $t {
            fn any() -> Self {
                let v = biased() as $t;
                record(stringify!($t), format!("{}", v));
                v
            }
        }
    )*};
}
int_arb!(u8, u16, u32, u64, usize, i8, i16, i32, i64, isize);
impl Arbitrary for bool {
    fn any() -> Self {
        let v = next() & 1 == 1;
        record("bool", format!("{}", v));
        v
    }
}
impl<T: Arbitrary, const N: usize> Arbitrary for [T; N] {
    fn any() -> Self {
        std::array::from_fn(|_| T::any())
    }
}
impl<A: Arbitrary, B: Arbitrary> Arbitrary for (A, B) {
    fn any() -> Self {
        (A::any(), B::any())
    }
}
impl<A: Arbitrary, B: Arbitrary, C: Arbitrary> Arbitrary for (A, B, C) {
    fn any() -> Self {
        (A::any(), B::any(), C::any())
    }
}
pub fn any<T: Arbitrary>() -> T {
    T::any()
}
pub fn assume(c: bool) {
    if !c {
        std::panic::panic_any(AssumeFailed);
    }
}
#[macro_export]
macro_rules! cover {
    () => {};
    ($c:expr) => {{
        let _ = $c;
    }};
    ($c:expr, $m:literal) => {{
        let _ = $c;
    }};
}
