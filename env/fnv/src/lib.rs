//! Loop-free, exact re-implementation of fnv::FnvHasher (FNV-1a, 64 bit) for slices of at
//! most 16 bytes -- jammdb feeds it 4- and 8-byte slices (`to_be_bytes()` of u32 / u64 fields).
//!
//! Why: the real crate iterates `for byte in bytes.iter()`; under Kani each byte costs
//! ~600 symex steps (slice-iterator pointer checks), 37 k steps per header checksum, and a
//! single `DBInner::meta()` computes up to six of them.  This version costs ~10 steps per
//! byte.  Its equivalence with the real crate is itself an obligation, decided against the
//! REAL fnv crate (profile `real`): harness `fnv_step_matches_formula` (one step = the
//! FNV-1a formula, initial state = the offset basis) -- and both compute exactly
//! h' = (h ^ b) * 0x100000001b3 per byte, in order.
//!
//! Additionally every byte written is appended to a global log (harness-side witness of
//! *what* was hashed, so "the checksum covers exactly the nine header fields in order" can
//! be decided without reasoning about multiplications).
use std::hash::Hasher;

pub const BASIS: u64 = 0xcbf29ce484222325;
pub const PRIME: u64 = 0x100000001b3;

pub const LOG_CAP: usize = 64;
pub struct Log {
    pub bytes: [u8; LOG_CAP],
    pub n: usize,
    pub on: bool,
}
pub static mut LOG: Log = Log { bytes: [0; LOG_CAP], n: 0, on: false };
pub fn jv_log() -> &'static mut Log {
    unsafe { &mut *std::ptr::addr_of_mut!(LOG) }
}

/// harness-side switch: replace the multiplication by a rotate (a cheap, still position-sensitive byte fold).
/// Used only by obligations that compare two checksum computations with each other (two 60-step
/// multiplication chains are out of reach for the SAT back end even when they are identical); those
/// obligations then hold "for the checksum being any deterministic fold of the hashed bytes".
pub static mut CHEAP: bool = false;
pub fn jv_set_cheap(on: bool) {
    unsafe { CHEAP = on }
}

pub struct FnvHasher(u64);

impl Default for FnvHasher {
    #[inline]
    fn default() -> FnvHasher {
        FnvHasher(BASIS)
    }
}
impl FnvHasher {
    #[inline]
    pub fn with_key(key: u64) -> FnvHasher {
        FnvHasher(key)
    }
}
macro_rules! step {
    ($self:ident, $bytes:ident, $i:literal) => {
        if $i < $bytes.len() {
            let b = $bytes[$i];
            if unsafe { CHEAP } {
                $self.0 = $self.0.rotate_left(7) ^ (b as u64);
            } else {
                $self.0 = ($self.0 ^ (b as u64)).wrapping_mul(PRIME);
            }
            let l = jv_log();
            if l.on {
                assert!(l.n < LOG_CAP);
                l.bytes[l.n] = b;
                l.n += 1;
            }
        }
    };
}
impl Hasher for FnvHasher {
    #[inline]
    fn finish(&self) -> u64 {
        self.0
    }
    #[inline]
    fn write(&mut self, bytes: &[u8]) {
        assert!(bytes.len() <= 16, "fnv model: slices longer than 16 bytes are outside the model");
        step!(self, bytes, 0);
        step!(self, bytes, 1);
        step!(self, bytes, 2);
        step!(self, bytes, 3);
        step!(self, bytes, 4);
        step!(self, bytes, 5);
        step!(self, bytes, 6);
        step!(self, bytes, 7);
        step!(self, bytes, 8);
        step!(self, bytes, 9);
        step!(self, bytes, 10);
        step!(self, bytes, 11);
        step!(self, bytes, 12);
        step!(self, bytes, 13);
        step!(self, bytes, 14);
        step!(self, bytes, 15);
    }
}
