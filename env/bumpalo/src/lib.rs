//! Model of bumpalo::Bump: `alloc_layout` returns fresh, 8-aligned, zeroed memory that is
//! never freed (the real arena frees on drop of the arena; jammdb keeps the arena for the
//! life of the transaction).
//!
//! Every allocation is its own heap object of a FIXED size (BLOCK_BYTES), whatever size was
//! asked for: jammdb computes the size of a dirty page by folding over a slice iterator, and
//! CBMC's symbolic execution does not fold that to a constant; a heap object of symbolic
//! size makes every later access to the page an array-theory problem (measured:
//! `tf.allocate(75)` + `write_node`: 12 s; `tf.allocate(n.size())` with the same value:
//! out of memory at 10 GB).  Asking for more than BLOCK_BYTES is an assertion failure
//! (outside the stated bound).
//!
//! Dropped: fresh memory is zero here (arbitrary in reality); block capacity 512 bytes.
use std::alloc::Layout;
use std::ptr::NonNull;

pub const BLOCK_BYTES: usize = 512;

pub struct Bump {
    pub allocated: std::cell::Cell<usize>,
}
impl Bump {
    pub fn new() -> Bump {
        Bump { allocated: std::cell::Cell::new(0) }
    }
    pub fn alloc_layout(&self, layout: Layout) -> NonNull<u8> {
        assert!(layout.size() > 0 && layout.align() <= 8);
        assert!(layout.size() <= BLOCK_BYTES, "bumpalo model: allocation larger than 512 bytes (outside the stated bound)");
        self.allocated.set(self.allocated.get() + layout.size());
        let block: &'static mut [u64; BLOCK_BYTES / 8] = Box::leak(Box::new([0u64; BLOCK_BYTES / 8]));
        unsafe { NonNull::new_unchecked(block.as_mut_ptr() as *mut u8) }
    }
}
