//! Model of bumpalo::Bump.  `alloc_layout` hands out 8-aligned memory from one static,
//! word-typed arena that is never reused or freed (the real arena frees on drop of the
//! arena; jammdb keeps the arena for the life of the transaction).
//!
//! Why word-typed and static: CBMC models a `malloc`ed block as a byte array, and viewing
//! such a block as `#[repr(C)]` structs of u64 fields (what jammdb does with every page)
//! makes the propositional encoding explode (measured: a 75-byte block + one
//! `Page::write_node` runs out of memory at 10 GB; the same code over a `[u64; 32]`
//! buffer decides in 24 s).
//!
//! Dropped: fresh memory is zero here (arbitrary in reality); arena capacity is 8 KiB
//! (exceeding it is an assertion failure = outside the stated bound).
use std::alloc::Layout;
use std::ptr::NonNull;

pub const ARENA_WORDS: usize = 512;
static mut ARENA: [u64; ARENA_WORDS] = [0; ARENA_WORDS];
static mut NEXT: usize = 0;

pub struct Bump {
    _p: (),
}
impl Bump {
    pub fn new() -> Bump {
        Bump { _p: () }
    }
    pub fn alloc_layout(&self, layout: Layout) -> NonNull<u8> {
        assert!(layout.size() > 0 && layout.align() <= 8);
        let words = (layout.size() + 7) / 8;
        unsafe {
            let start = NEXT;
            assert!(start + words <= ARENA_WORDS, "bumpalo model: arena capacity exceeded (outside the stated bound)");
            NEXT = start + words;
            let base = std::ptr::addr_of_mut!(ARENA) as *mut u64;
            NonNull::new_unchecked(base.add(start) as *mut u8)
        }
    }
}
/// harness-side: words handed out so far
pub fn jv_arena_used() -> usize {
    unsafe { NEXT }
}
