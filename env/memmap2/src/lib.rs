use std::io::Result;
use std::ops::Deref;
use jv_env::File;

pub enum Advice {
    Normal,
    Random,
    Sequential,
    WillNeed,
}

pub struct Mmap {
    // a view of the model disk (MAP_SHARED coherence: later writes are visible)
    ptr: *const u8,
    len: usize,
}
unsafe impl Send for Mmap {}
unsafe impl Sync for Mmap {}

impl Mmap {
    pub unsafe fn map(_file: &File) -> Result<Mmap> {
        let d = jv_env::disk();
        Ok(Mmap { ptr: d.as_ptr(), len: d.len })
    }
    pub fn advise(&self, _a: Advice) -> Result<()> {
        Ok(())
    }
}
impl Deref for Mmap {
    type Target = [u8];
    fn deref(&self) -> &[u8] {
        unsafe { std::slice::from_raw_parts(self.ptr, self.len) }
    }
}
impl AsRef<[u8]> for Mmap {
    fn as_ref(&self) -> &[u8] {
        self.deref()
    }
}

#[derive(Default)]
pub struct MmapOptions {
    populate: bool,
}
impl MmapOptions {
    pub fn new() -> Self {
        Self::default()
    }
    pub fn populate(&mut self) -> &mut Self {
        self.populate = true;
        self
    }
    pub unsafe fn map(&self, file: &File) -> Result<Mmap> {
        Mmap::map(file)
    }
}
impl Mmap {
    /// harness-side: a map over an arbitrary buffer (e.g. a synthesised crash image)
    pub fn from_raw(ptr: *const u8, len: usize) -> Mmap {
        Mmap { ptr, len }
    }
}
