// Harnesses mounted as child module `jv` of src/node.rs.
// Obligations: C01-Ob1 (insert/delete in a materialised leaf), C01-Ob2 / C05-Ob5 / C15-Ob2 (node -> page
// encode, decoded by an independent reference reader), C05-Ob3 (a node frees its old run exactly once),
// C16-Ob1 (split / merge thresholds with a symbolic page size).
//
// Container lengths are concrete throughout (a Vec of symbolic length makes every later access symbolic and
// does not decide); key / value *bytes*, page ids, counters and the page size are symbolic.
use super::*;
use crate::freelist::jv::mk_meta;
use crate::freelist::Freelist;

fn rd64(base: *const u8, off: usize) -> u64 {
    let mut b = [0u8; 8];
    let mut i = 0;
    while i < 8 {
        b[i] = unsafe { *base.add(off + i) };
        i += 1;
    }
    u64::from_le_bytes(b)
}

fn kv<'a>(k: &'a [u8], v: &'a [u8]) -> Leaf<'a> {
    Leaf::Kv(Bytes::Slice(k), Bytes::Slice(v))
}

fn leaf_node<'a>(v: Vec<Leaf<'a>>, pagesize: u64) -> Node<'a> {
    let mut n = Node::new(0, Page::TYPE_LEAF, pagesize);
    n.data = NodeData::Leaves(v);
    n
}

fn leaves<'a, 'b>(n: &'b Node<'a>) -> &'b Vec<Leaf<'a>> {
    match &n.data {
        NodeData::Leaves(l) => l,
        _ => panic!("not a leaf"),
    }
}

// ---- C01-Ob1: insert_data on a sorted 2-entry leaf: replace on equal key, else insert at the sorted position
// @ob props=C01,C07 tier=quick cap=400 fns=Node::insert_data bound="leaf with 2 sorted symbolic 2-byte keys, inserted key symbolic 2 bytes, kind symbolic (kv or bucket)" unwind=4
#[kani::proof]
#[kani::unwind(4)]
fn node_insert_data_step() {
    let k: [[u8; 2]; 2] = kani::any();
    kani::assume(k[0] < k[1]);
    let vals: [[u8; 1]; 2] = [[10], [11]];
    // spare capacity: the insertion itself is the subject, not Vec growth
    let mut v0 = Vec::with_capacity(3);
    v0.push(kv(&k[0], &vals[0]));
    v0.push(kv(&k[1], &vals[1]));
    let mut n = leaf_node(v0, 256);
    let nk: [u8; 2] = kani::any();
    let nv: [u8; 1] = [99];
    let as_bucket: bool = kani::any();
    let leaf = if as_bucket { Leaf::Bucket(Bytes::Slice(&nk), BucketMeta { root_page: 77, next_int: 5 }) } else { kv(&nk, &nv) };
    n.insert_data(leaf);
    let l = leaves(&n);
    let hit = k[0] == nk || k[1] == nk;
    // expected sequence of (key, tag) where tag 0/1 = original entry, 9 = the new one
    let mut exp_k: [[u8; 2]; 3] = [[0; 2]; 3];
    let mut exp_t: [u8; 3] = [0; 3];
    let mut m = 0usize;
    let mut placed = false;
    let mut i = 0usize;
    while i < 2 {
        if !placed && nk <= k[i] {
            exp_k[m] = nk;
            exp_t[m] = 9;
            m += 1;
            placed = true;
        }
        if k[i] != nk {
            exp_k[m] = k[i];
            exp_t[m] = i as u8;
            m += 1;
        }
        i += 1;
    }
    if !placed {
        exp_k[m] = nk;
        exp_t[m] = 9;
        m += 1;
    }
    assert!(l.len() == m, "an existing key is replaced, a new key adds one entry");
    assert!(m == if hit { 2 } else { 3 });
    let mut j = 0usize;
    while j < 3 {
        if j < m {
            assert!(l[j].key() == &exp_k[j][..], "entries stay in ascending key order");
            if exp_t[j] == 9 {
                assert!(l[j].is_kv() == !as_bucket, "the entry for the inserted key carries the new kind");
                if !as_bucket {
                    assert!(l[j].value() == &nv[..], "and the new value");
                }
            } else {
                assert!(l[j].is_kv() && l[j].value()[0] == 10 + exp_t[j], "other entries keep their value");
            }
        }
        j += 1;
    }
    kani::cover!(hit && exp_t[1] == 9);
    kani::cover!(!hit && exp_t[0] == 9);
    kani::cover!(!hit && exp_t[2] == 9);
    std::mem::forget(n);
}

// ---- C01-Ob1: delete(index) removes exactly that entry and returns it
// @ob props=C01,C07 tier=quick cap=200 fns=Node::delete bound="leaf with 3 symbolic 2-byte keys, any index < 3" unwind=4
#[kani::proof]
#[kani::unwind(4)]
fn node_delete_step() {
    let k: [[u8; 2]; 3] = kani::any();
    let vals: [[u8; 1]; 3] = [[10], [11], [12]];
    let mut n = leaf_node(vec![kv(&k[0], &vals[0]), kv(&k[1], &vals[1]), kv(&k[2], &vals[2])], 256);
    let idx: usize = kani::any();
    kani::assume(idx < 3);
    let gone = n.delete(idx);
    assert!(gone.key() == &k[idx][..] && gone.value() == &vals[idx][..], "delete returns the removed pair");
    let l = leaves(&n);
    assert!(l.len() == 2);
    let a = if idx == 0 { 1 } else { 0 };
    let b = if idx == 2 { 1 } else { 2 };
    assert!(l[0].key() == &k[a][..] && l[0].value() == &vals[a][..]);
    assert!(l[1].key() == &k[b][..] && l[1].value() == &vals[b][..]);
    std::mem::forget(gone);
    std::mem::forget(n);
}

/// reference leaf-page reader at the pinned offsets (see harness/page.rs): returns (type, key ptr, klen, val ptr, vlen)
fn ref_leaf(base: *const u8, i: usize) -> (u8, usize, u64, usize, u64) {
    let e = 32 + 32 * i;
    let t = unsafe { *base.add(e) };
    let pos = rd64(base, e + 8);
    let ks = rd64(base, e + 16);
    let vs = rd64(base, e + 24);
    (t, e + pos as usize, ks, e + (pos + ks) as usize, vs)
}

// ---- C01-Ob2 / C05-Ob5 / C15-Ob2: Page::write_node, decoded by the reference reader at the pinned offsets
// @ob props=C01,C05,C15,C02 tier=quick cap=400 fns=Page::write_node,Node::size,Leaf::key,Leaf::value,Leaf::node_type,Node::from_page,Leaf::from_leaf bound="leaf node with 3 entries: kv(2-byte key,1-byte value), bucket(1-byte name, symbolic header), kv(2-byte key, empty value); all bytes symbolic" unwind=17
#[kani::proof]
#[kani::unwind(17)]
fn node_write_leaf_layout() {
    let k0: [u8; 2] = kani::any();
    let v0: [u8; 1] = kani::any();
    let k1: [u8; 1] = kani::any();
    let bm = BucketMeta { root_page: kani::any(), next_int: kani::any() };
    let k2: [u8; 2] = kani::any();
    let v2: [u8; 0] = [];
    let mut n = leaf_node(vec![kv(&k0, &v0), Leaf::Bucket(Bytes::Slice(&k1), bm), kv(&k2, &v2)], 256);
    let pid: u64 = kani::any();
    n.page_id = pid;
    assert!(n.size() == 40 + 3 * 32 + (2 + 1) + (1 + 16) + 2, "node size = page header + element headers + keys + values");
    let mut buf = [0u64; 32];
    let page = unsafe { &mut *(buf.as_mut_ptr() as *mut Page) };
    page.id = pid;
    page.overflow = 0;
    let r = page.write_node(&n, 1);
    assert!(r.is_ok());
    std::mem::forget(r);
    let base = buf.as_ptr() as *const u8;
    assert!(rd64(base, 0) == pid, "page id");
    assert!(unsafe { *base.add(8) } == 2, "leaf page type");
    assert!(rd64(base, 16) == 3, "count");
    assert!(rd64(base, 24) == 0, "overflow");
    let data0 = 32 + 3 * 32; // data area starts right after the element headers
    let (t, kp, ks, vp, vs) = ref_leaf(base, 0);
    assert!(t == 0 && kp == data0 && ks == 2 && vp == data0 + 2 && vs == 1);
    assert!(unsafe { *base.add(kp) } == k0[0] && unsafe { *base.add(kp + 1) } == k0[1] && unsafe { *base.add(vp) } == v0[0]);
    let (t, kp, ks, vp, vs) = ref_leaf(base, 1);
    assert!(t == 1 && kp == data0 + 3 && ks == 1 && vp == data0 + 4 && vs == 16, "bucket entry: type 1, 16-byte header as value");
    assert!(unsafe { *base.add(kp) } == k1[0]);
    assert!(rd64(base, vp) == bm.root_page && rd64(base, vp + 8) == bm.next_int, "bucket header: root page then counter, little endian");
    let (t, kp, ks, vp, vs) = ref_leaf(base, 2);
    assert!(t == 0 && kp == data0 + 20 && ks == 2 && vp == data0 + 22 && vs == 0);
    assert!(unsafe { *base.add(kp) } == k2[0] && unsafe { *base.add(kp + 1) } == k2[1]);
    assert!((vp as u64) + vs <= n.size(), "every element lies inside Node::size() bytes");
    std::mem::forget(n);
}

// ---- the code's own reader inverts the writer (decode(encode(n)) == n)
// @ob props=C01,C15 tier=parked cap=1200 mem=20 fns=Page::write_node,Node::from_page,Leaf::from_leaf,Page::leaf_elements,LeafElement::key,LeafElement::value,BucketMeta::from bound="same 3-entry leaf node, all bytes symbolic" unwind=17
#[kani::proof]
#[kani::unwind(17)]
fn node_write_leaf_decode() {
    let k0: [u8; 2] = kani::any();
    let v0: [u8; 1] = kani::any();
    let k1: [u8; 1] = kani::any();
    let bm = BucketMeta { root_page: kani::any(), next_int: kani::any() };
    let k2: [u8; 2] = kani::any();
    let v2: [u8; 0] = [];
    let mut n = leaf_node(vec![kv(&k0, &v0), Leaf::Bucket(Bytes::Slice(&k1), bm), kv(&k2, &v2)], 256);
    n.page_id = 9;
    let mut buf = [0u64; 32];
    let page = unsafe { &mut *(buf.as_mut_ptr() as *mut Page) };
    page.id = 9;
    page.overflow = 2;
    let r = page.write_node(&n, 3);
    assert!(r.is_ok());
    std::mem::forget(r);
    let page = unsafe { &*(buf.as_ptr() as *const Page) };
    let back = Node::from_page(1, page, 256);
    let l = leaves(&back);
    assert!(l.len() == 3);
    assert!(l[0].is_kv() && l[0].key() == &k0[..] && l[0].value() == &v0[..]);
    assert!(!l[1].is_kv() && l[1].key() == &k1[..]);
    match &l[1] {
        Leaf::Bucket(_, m) => assert!(m.root_page == bm.root_page && m.next_int == bm.next_int, "nested bucket header survives"),
        _ => panic!("bucket expected"),
    }
    assert!(l[2].is_kv() && l[2].key() == &k2[..] && l[2].value().len() == 0);
    assert!(back.page_id == 9 && back.num_pages == 3, "run = overflow + 1 pages");
    assert!(back.original_key.as_ref().unwrap().as_ref() == &k0[..], "original key = first key");
    std::mem::forget(back);
    std::mem::forget(n);
}

// ---- same for a branch node
// @ob props=C01,C05,C15 tier=quick cap=400 fns=Page::write_node,Node::size,Node::from_page,Branch::key,Page::branch_elements,BranchElement::key bound="branch node with 3 entries, keys of 2, 1 and 2 symbolic bytes, symbolic child page ids > 1" unwind=17
#[kani::proof]
#[kani::unwind(17)]
fn node_write_branch_roundtrip() {
    let k0: [u8; 2] = kani::any();
    let k1: [u8; 1] = kani::any();
    let k2: [u8; 2] = kani::any();
    let c: [u64; 3] = kani::any();
    kani::assume(c[0] > 1 && c[1] > 1 && c[2] > 1);
    let mut n = Node::new(0, Page::TYPE_BRANCH, 256);
    n.data = NodeData::Branches(vec![
        Branch { key: Bytes::Slice(&k0), page: c[0] },
        Branch { key: Bytes::Slice(&k1), page: c[1] },
        Branch { key: Bytes::Slice(&k2), page: c[2] },
    ]);
    n.page_id = 20;
    assert!(n.size() == 40 + 3 * 24 + 5);
    let mut buf = [0u64; 32];
    let page = unsafe { &mut *(buf.as_mut_ptr() as *mut Page) };
    page.id = 20;
    page.overflow = 0;
    let r = page.write_node(&n, 1);
    assert!(r.is_ok());
    std::mem::forget(r);
    let base = buf.as_ptr() as *const u8;
    assert!(rd64(base, 0) == 20 && unsafe { *base.add(8) } == 1 && rd64(base, 16) == 3 && rd64(base, 24) == 0);
    let data0 = 32 + 3 * 24;
    let ks = [2u64, 1, 2];
    let starts = [data0, data0 + 2, data0 + 3];
    let mut i = 0usize;
    while i < 3 {
        let e = 32 + 24 * i;
        assert!(rd64(base, e) == c[i], "child page id");
        assert!(rd64(base, e + 8) == ks[i], "key size");
        assert!(e + rd64(base, e + 16) as usize == starts[i], "key position, relative to the element");
        i += 1;
    }
    assert!(unsafe { *base.add(starts[0]) } == k0[0] && unsafe { *base.add(starts[0] + 1) } == k0[1]);
    assert!(unsafe { *base.add(starts[1]) } == k1[0]);
    assert!(unsafe { *base.add(starts[2]) } == k2[0] && unsafe { *base.add(starts[2] + 1) } == k2[1]);
    let page = unsafe { &*(base as *const Page) };
    let back = Node::from_page(1, page, 256);
    match &back.data {
        NodeData::Branches(b) => {
            assert!(b.len() == 3 && b[0].key() == &k0[..] && b[1].key() == &k1[..] && b[2].key() == &k2[..]);
            assert!(b[0].page == c[0] && b[1].page == c[1] && b[2].page == c[2]);
        }
        _ => panic!("branch expected"),
    }
    assert!(back.original_key.as_ref().unwrap().as_ref() == &k0[..], "original key = first key");
    std::mem::forget(back);
    std::mem::forget(n);
}

fn one_entry_node<'a>(k0: &'a [u8; 2], v0: &'a [u8; 1]) -> Node<'a> {
    let mut n = leaf_node(vec![kv(&k0[..], &v0[..])], 256);
    n.page_id = 7;
    n.num_pages = 2;
    n
}

// ---- C05-Ob3: Node::write frees the old run (pending, not reusable), takes a fresh run, records it, and the
//      dirty page carries the node
// @ob props=C05,C02 tier=quick cap=300 fns=Node::write,Node::allocate,Node::free_page,TxFreelist::free,TxFreelist::allocate,Page::write_node bound="one-entry leaf backed by run (7, 2 pages); tx id 9; high-water mark 20; empty free set; symbolic key / value bytes" unwind=9
#[kani::proof]
#[kani::unwind(9)]
fn node_write_reallocates() {
    let k0: [u8; 2] = kani::any();
    let v0: [u8; 1] = kani::any();
    let mut tf = TxFreelist::new(mk_meta(256, 20, 9), Freelist::new());
    let mut n = one_entry_node(&k0, &v0);
    let r = n.write(&mut tf);
    assert!(r.is_ok());
    std::mem::forget(r);
    assert!(n.page_id == 20 && n.num_pages == 1, "rewritten to a fresh run at the high-water mark");
    assert!(tf.meta.num_pages == 21);
    assert!(tf.pages.len() == 1);
    let (ptr, len) = *tf.pages.get(&20).unwrap();
    assert!(len as u64 == n.size(), "dirty map records the node's byte length");
    let base = ptr.as_ptr() as *const u8;
    assert!(rd64(base, 0) == 20 && unsafe { *base.add(8) } == 2 && rd64(base, 16) == 1 && rd64(base, 24) == 0, "page header: id, leaf, count, overflow");
    assert!(unsafe { *base.add(64) } == k0[0] && unsafe { *base.add(66) } == v0[0], "entry bytes follow the element header");
    let p = crate::freelist::jv::pending_of(&tf.inner, 9).unwrap();
    assert!(p.len() == 2 && p[0] == 7 && p[1] == 8, "the old run is pending under this transaction, once");
    assert!(crate::freelist::jv::n_free(&tf.inner) == 0, "nothing freed in this transaction is reusable in it");
    std::mem::forget(n);
    std::mem::forget(tf);
}

// @ob props=C05,C02 tier=quick cap=300 fns=Node::free_page,TxFreelist::free bound="node backed by run (7, 2 pages), free_page called twice" unwind=5
#[kani::proof]
#[kani::unwind(5)]
fn node_free_page_once() {
    let k0: [u8; 2] = kani::any();
    let v0: [u8; 1] = kani::any();
    let mut tf = TxFreelist::new(mk_meta(256, 20, 9), Freelist::new());
    let mut n = one_entry_node(&k0, &v0);
    n.free_page(&mut tf);
    n.free_page(&mut tf);
    assert!(n.page_id == 0);
    assert!(tf.pages.len() == 0 && tf.meta.num_pages == 20);
    let p = crate::freelist::jv::pending_of(&tf.inner, 9).unwrap();
    assert!(p.len() == 2 && p[0] == 7 && p[1] == 8, "freed exactly once");
    assert!(crate::freelist::jv::n_free(&tf.inner) == 0);
    std::mem::forget(n);
    std::mem::forget(tf);
}

// @ob props=C05 tier=quick cap=300 fns=Node::write bound="deleted node backed by run (7, 2 pages)" unwind=5
#[kani::proof]
#[kani::unwind(5)]
fn node_deleted_not_written() {
    let k0: [u8; 2] = kani::any();
    let v0: [u8; 1] = kani::any();
    let mut tf = TxFreelist::new(mk_meta(256, 20, 9), Freelist::new());
    let mut n = one_entry_node(&k0, &v0);
    n.deleted = true;
    let r = n.write(&mut tf);
    assert!(r.is_ok());
    std::mem::forget(r);
    assert!(tf.pages.len() == 0 && tf.meta.num_pages == 20, "a deleted node is not written");
    assert!(n.page_id == 7);
    assert!(crate::freelist::jv::n_pending_lists(&tf.inner) == 0);
    std::mem::forget(n);
    std::mem::forget(tf);
}

// ---- C16-Ob1: needs_merging arithmetic for every page size
// @ob props=C16,C01 tier=quick cap=200 fns=Node::needs_merging,Node::size,NodeData::size,Leaf::size bound="leaf with 1..=3 entries (3 variants), value lengths symbolic in 0..=4096, page size any u64 >= 64" unwind=5
#[kani::proof]
#[kani::unwind(5)]
fn node_needs_merging_arith() {
    static BUF: [u8; 4096] = [0; 4096];
    let l: [usize; 3] = kani::any();
    kani::assume(l[0] <= 4096 && l[1] <= 4096 && l[2] <= 4096);
    let ps: u64 = kani::any();
    kani::assume(ps >= 64);
    let k: [u8; 2] = kani::any();
    let which: u8 = kani::any();
    let n = if which == 0 {
        leaf_node(vec![kv(&k, &BUF[..l[0]])], ps)
    } else if which == 1 {
        leaf_node(vec![kv(&k, &BUF[..l[0]]), kv(&k, &BUF[..l[1]])], ps)
    } else {
        leaf_node(vec![kv(&k, &BUF[..l[0]]), kv(&k, &BUF[..l[1]]), kv(&k, &BUF[..l[2]])], ps)
    };
    let cnt: u64 = if which == 0 { 1 } else if which == 1 { 2 } else { 3 };
    let mut total = 40 + cnt * 32 + cnt * 2 + l[0] as u64;
    if cnt >= 2 {
        total += l[1] as u64;
    }
    if cnt >= 3 {
        total += l[2] as u64;
    }
    assert!(n.size() == total);
    assert!(n.needs_merging() == (cnt < 2 || total < ps / 4), "merge iff fewer than 2 entries or under a quarter page");
    kani::cover!(cnt == 3 && n.needs_merging());
    kani::cover!(cnt == 2 && !n.needs_merging());
    std::mem::forget(n);
}




// ---- C16-Ob1 / C01: Node::split with the page size symbolic: the pieces partition the entries in order, nothing is
//      lost or duplicated, every piece keeps at least 2 entries, no index under- or overflows
// @ob props=C16,C01,C05 tier=parked cap=1200 mem=8 fns=Node::split,Node::size,NodeData::split_at,InnerBucket::new_node,Node::with_data bound="leaf node with 6 entries (concrete 1-byte keys 1..6), value lengths symbolic in 0..=600, page size symbolic in 64..=4096" unwind=8
#[kani::proof]
#[kani::unwind(8)]
fn node_split_partition() {
    static BUF: [u8; 600] = [0; 600];
    let ps: u64 = kani::any();
    kani::assume(ps >= 64 && ps <= 4096);
    let l: [usize; 6] = kani::any();
    let mut i = 0;
    while i < 6 {
        kani::assume(l[i] <= 600);
        i += 1;
    }
    let keys: [[u8; 1]; 6] = [[1], [2], [3], [4], [5], [6]];
    let mut v = Vec::with_capacity(6);
    let mut i = 0;
    while i < 6 {
        v.push(kv(&keys[i], &BUF[..l[i]]));
        i += 1;
    }
    let mut node = leaf_node(v, ps);
    let total = node.size();
    let b = crate::cursor::jv::mk_bucket(3, true);
    let mut ib = b.inner.borrow_mut();
    let r = node.split(&mut ib);
    // walk the pieces in order and check they are exactly keys 1..6
    let mut next_key = 1u8;
    let mut pieces = 0usize;
    {
        let first = leaves(&node);
        assert!(first.len() >= 2 || r.is_none(), "the first piece keeps at least two entries");
        let mut j = 0;
        while j < 6 {
            if j < first.len() {
                assert!(first[j].key()[0] == next_key, "entries stay in order");
                next_key += 1;
            }
            j += 1;
        }
        pieces += 1;
    }
    if let Some(sibs) = &r {
        assert!(total >= ps, "a node is only split when it does not fit a page");
        assert!(sibs.len() >= 1 && sibs.len() <= 2);
        let mut s = 0;
        while s < 2 {
            if s < sibs.len() {
                let n = sibs[s].borrow();
                let part = leaves(&n);
                assert!(part.len() >= 2, "every piece keeps at least two entries");
                let mut j = 0;
                while j < 6 {
                    if j < part.len() {
                        assert!(part[j].key()[0] == next_key, "entries stay in order across pieces");
                        next_key += 1;
                    }
                    j += 1;
                }
                pieces += 1;
            }
            s += 1;
        }
    }
    assert!(next_key == 7, "no entry is lost or duplicated");
    kani::cover!(pieces == 2);
    kani::cover!(pieces == 3);
    kani::cover!(pieces == 1 && total >= ps, "over-full but unsplittable");
    std::mem::forget(r);
    std::mem::forget(node);
}

// ---- Node::split / Node::write / Node::spill on BRANCH nodes.
// (The byte size of a key/value LEAF entry is not a constant for CBMC's symbolic execution -- the two variants of
//  `Leaf` overlay a slice length with a pointer field and a union value is normalised through the other variant, see
//  DESIGN.md 10.1 -- so every size-driven decision forks and leaf versions of these harnesses run out of memory.
//  Branch entries are plain structs: sizes fold, and the split / write / spill logic is shared by both kinds.)
fn branch_keys() -> [[u8; 16]; 6] {
    let mut k: [[u8; 16]; 6] = kani::any();
    let mut i = 0;
    while i < 6 {
        k[i][0] = 10 * (i as u8 + 1); // ascending by the first byte; the other 15 bytes of every key symbolic
        i += 1;
    }
    k
}

fn branch_node<'a>(k: &'a [[u8; 16]; 6], n: usize, pagesize: u64) -> Node<'a> {
    let mut v = Vec::with_capacity(6);
    let mut i = 0;
    while i < 6 {
        if i < n {
            v.push(Branch { key: Bytes::Slice(&k[i]), page: 30 + i as u64 });
        }
        i += 1;
    }
    let mut node = Node::new(0, Page::TYPE_BRANCH, pagesize);
    node.data = NodeData::Branches(v);
    node.original_key = Some(Bytes::Slice(&k[0]));
    node
}

fn branches<'a, 'b>(n: &'b Node<'a>) -> &'b Vec<Branch<'a>> {
    match &n.data {
        NodeData::Branches(b) => b,
        _ => panic!("not a branch"),
    }
}

/// entries [from, from + cnt) of the original six, in order, with their child page ids
fn piece_is(n: &Node, k: &[[u8; 16]; 6], from: usize, cnt: usize) -> bool {
    let b = branches(n);
    let mut ok = b.len() == cnt;
    let mut i = 0;
    while i < 6 {
        if i < cnt && i < b.len() {
            ok = ok && b[i].page == 30 + (from + i) as u64 && b[i].key()[0] == k[from + i][0] && b[i].key()[15] == k[from + i][15] && b[i].key().len() == 16;
        }
        i += 1;
    }
    ok
}

// ---- C01 / C05: Node::split: 6 entries of 40 bytes on 128-byte pages are cut where the running size passes half a
//      page, every piece keeps two entries, order and content are preserved, the pieces are registered with the bucket
// @ob props=C05,C16 tier=quick cap=600 mem=5 fns=Node::split,Node::size,NodeData::size,NodeData::split_at,InnerBucket::new_node,Node::with_data bound="branch node, 6 entries with 16-byte keys (first byte fixes the order, 15 symbolic bytes each), page size 128: three pieces of two" unwind=8
#[kani::proof]
#[kani::unwind(8)]
fn node_split_branch_three_pieces() {
    let k = branch_keys();
    let mut node = branch_node(&k, 6, 128);
    let b = crate::cursor::jv::mk_bucket(3, true);
    let mut ib = b.inner.borrow_mut();
    let r = node.split(&mut ib);
    assert!(r.is_some(), "JV-C01-SPLIT: a node larger than its page is split");
    if let Some(sibs) = &r {
        assert!(sibs.len() == 2, "JV-C01-SPLIT: cut where the running size passes half a page, at least two entries per piece");
        assert!(piece_is(&node, &k, 0, 2), "the node keeps the first piece");
        assert!(ib.nodes.len() == 2, "the new pieces are registered with the bucket");
        if sibs.len() == 2 {
            let s0 = sibs[0].borrow();
            let s1 = sibs[1].borrow();
            assert!(piece_is(&s0, &k, 2, 2) && piece_is(&s1, &k, 4, 2), "JV-C01-SPLIT: the pieces partition the entries in order, nothing lost or duplicated");
            assert!(s0.id == 0 && s1.id == 1 && s0.page_id == 0 && s1.page_id == 0 && !s0.deleted);
            assert!(s0.original_key.as_ref().map(|x| x.as_ref()[0]) == Some(k[2][0]), "a new piece is known by its first key");
        }
    }
    std::mem::forget(r);
    std::mem::forget(node);
    std::mem::forget(ib);
}

// @ob props=C05,C16 tier=quick cap=300 fns=Node::split,Node::size,NodeData::size bound="branch node, 6 entries with 16-byte keys (280 bytes) on 512-byte pages, and 4 such entries on 128-byte pages: not split" unwind=8
#[kani::proof]
#[kani::unwind(8)]
fn node_split_branch_not_needed() {
    let k = branch_keys();
    let b = crate::cursor::jv::mk_bucket(3, true);
    let mut ib = b.inner.borrow_mut();
    let mut fits = branch_node(&k, 6, 512);
    assert!(fits.split(&mut ib).is_none(), "a node that fits its page is left alone");
    assert!(piece_is(&fits, &k, 0, 6));
    let mut few = branch_node(&k, 4, 128);
    assert!(few.split(&mut ib).is_none(), "four entries are never split (two pieces of two are the minimum)");
    assert!(piece_is(&few, &k, 0, 4) && ib.nodes.len() == 0);
    std::mem::forget(fits);
    std::mem::forget(few);
    std::mem::forget(ib);
}

// ---- C05-Ob3: Node::write through the real TxFreelist: the old run goes to pending (not reusable in this
//      transaction), a fresh run is taken at the high-water mark, the dirty page carries the node
// @ob props=C05,C10 tier=quick cap=300 fns=Node::write,Node::allocate,Node::free_page,Node::size,TxFreelist::free,TxFreelist::allocate,Freelist::allocate,Page::write_node bound="branch node with 2 entries (16-byte keys, symbolic) backed by run (7, 2 pages); tx id 9; high-water mark 20; empty free set; page size 256" unwind=9
#[kani::proof]
#[kani::unwind(9)]
fn node_write_branch_reallocates() {
    let k = branch_keys();
    let mut tf = TxFreelist::new(mk_meta(256, 20, 9), Freelist::new());
    let mut n = branch_node(&k, 2, 256);
    n.page_id = 7;
    n.num_pages = 2;
    let r = n.write(&mut tf);
    assert!(r.is_ok());
    std::mem::forget(r);
    assert!(n.page_id == 20 && n.num_pages == 1, "JV-C05-WRITE: rewritten to a fresh run at the high-water mark");
    assert!(tf.meta.num_pages == 21);
    assert!(tf.pages.len() == 1);
    let (ptr, len) = *tf.pages.get(&20).unwrap();
    assert!(len as u64 == 40 + 2 * 40, "the dirty map records the node's byte length");
    let base = ptr.as_ptr() as *const u8;
    assert!(rd64(base, 0) == 20 && unsafe { *base.add(8) } == 1 && rd64(base, 16) == 2 && rd64(base, 24) == 0, "page header: id, branch, count, overflow");
    assert!(rd64(base, 32) == 30 && rd64(base, 32 + 24) == 31, "child page ids");
    assert!(unsafe { *base.add(80) } == k[0][0] && unsafe { *base.add(80 + 15) } == k[0][15] && unsafe { *base.add(96) } == k[1][0], "keys follow the element headers");
    let p = crate::freelist::jv::pending_of(&tf.inner, 9).unwrap();
    assert!(p.len() == 2 && p[0] == 7 && p[1] == 8, "JV-C05-WRITE: the old run is pending under this transaction, once");
    assert!(crate::freelist::jv::n_free(&tf.inner) == 0, "nothing freed in this transaction is reusable in it");
    std::mem::forget(n);
    std::mem::forget(tf);
}

// ---- C01-Ob5 / C05: Node::spill of a root that fits: written once, its new page id is reported as the new root;
//      a second spill is a no-op
// @ob props=C05,C01 tier=quick cap=400 mem=4 fns=Node::spill,Node::split,Node::write,Node::allocate,TxFreelist::allocate,Page::write_node bound="root branch node with 2 entries (16-byte keys, symbolic), no materialised children, backed by page 7; page size 256; high-water mark 20" unwind=9
#[kani::proof]
#[kani::unwind(9)]
fn node_spill_branch_root_fits() {
    let k = branch_keys();
    let b = crate::cursor::jv::mk_bucket(3, true);
    let mut ib = b.inner.borrow_mut();
    let mut tf = TxFreelist::new(mk_meta(256, 20, 9), Freelist::new());
    let mut n = branch_node(&k, 2, 256);
    n.page_id = 7;
    n.num_pages = 1;
    let r = n.spill(&mut ib, &mut tf, None);
    assert!(matches!(r, Ok(Some(20))), "JV-C01-SPILL: the root reports the page it was written to");
    std::mem::forget(r);
    assert!(n.page_id == 20 && tf.pages.len() == 1 && tf.meta.num_pages == 21 && ib.nodes.len() == 0);
    let p = crate::freelist::jv::pending_of(&tf.inner, 9).unwrap();
    assert!(p.len() == 1 && p[0] == 7);
    let again = n.spill(&mut ib, &mut tf, None);
    assert!(matches!(again, Ok(None)), "a node is spilled once per commit");
    std::mem::forget(again);
    assert!(tf.pages.len() == 1 && tf.meta.num_pages == 21);
    std::mem::forget(n);
    std::mem::forget(tf);
    std::mem::forget(ib);
}

// ---- C01-Ob5 / C05: Node::spill of a root that has to be split: every piece is written to its own run, a new
//      root branch is created over them (first key and page of every piece, in order), written, and reported;
//      the old page -- and the page of the superseded first write -- are pending, once each
// @ob props=C05,C01 tier=parked cap=1500 mem=24 fns=Node::spill,Node::split,Node::write,Node::allocate,Branch::from_node,InnerBucket::new_node,TxFreelist::allocate,TxFreelist::free,Page::write_node bound="root branch node with 5 entries (16-byte keys, symbolic), no materialised children, backed by page 7; page size 128; high-water mark 20: two pieces (the second spans two pages) and a new root" unwind=9
#[kani::proof]
#[kani::unwind(9)]
fn node_spill_branch_root_splits() {
    let k = branch_keys();
    let b = crate::cursor::jv::mk_bucket(3, true);
    let mut ib = b.inner.borrow_mut();
    let mut tf = TxFreelist::new(mk_meta(128, 20, 9), Freelist::new());
    let mut n = branch_node(&k, 5, 128);
    n.page_id = 7;
    n.num_pages = 1;
    let r = n.spill(&mut ib, &mut tf, None);
    assert!(r.is_ok());
    let root = match &r {
        Ok(Some(p)) => *p,
        _ => 0,
    };
    std::mem::forget(r);
    assert!(ib.nodes.len() == 2, "the new piece and the new root are registered with the bucket");
    let s0 = ib.nodes[0].borrow();
    let top = ib.nodes[1].borrow();
    assert!(piece_is(&n, &k, 0, 2) && piece_is(&s0, &k, 2, 3), "JV-C01-SPLIT: the pieces partition the entries in order");
    assert!(n.num_pages == 1 && s0.num_pages == 2 && top.num_pages == 1, "a piece of 160 bytes takes a run of two 128-byte pages");
    assert!(root == top.page_id && root != 0, "JV-C01-SPILL: the new root's page is reported");
    let tb = branches(&top);
    assert!(tb.len() == 2, "the new root has one entry per piece");
    if tb.len() == 2 {
        assert!(tb[0].page == n.page_id && tb[1].page == s0.page_id, "JV-C01-SPILL: the new root points at the pieces, in order");
        assert!(tb[0].key()[0] == k[0][0] && tb[1].key()[0] == k[2][0] && tb[1].key()[15] == k[2][15] && tb[1].key().len() == 16, "each under its first key");
    }
    // accounting: every page from the old high-water mark to the new one belongs to exactly one live run or is
    // pending exactly once; the page the root came from is pending once
    let hw = tf.meta.num_pages;
    let p = crate::freelist::jv::pending_of(&tf.inner, 9).unwrap();
    assert!(hw <= 26 && p.len() <= 4);
    let runs = [(n.page_id, n.num_pages), (s0.page_id, s0.num_pages), (top.page_id, top.num_pages)];
    let mut id = 20;
    while id < 26 {
        if id < hw {
            let mut live = 0;
            let mut r = 0;
            while r < 3 {
                if runs[r].0 <= id && id < runs[r].0 + runs[r].1 {
                    live += 1;
                }
                r += 1;
            }
            let mut pend = 0;
            let mut j = 0;
            while j < 4 {
                if j < p.len() && p[j] == id {
                    pend += 1;
                }
                j += 1;
            }
            assert!(live + pend == 1, "JV-C05-SPILL: every page taken by the spill is part of exactly one live run or given back exactly once");
        }
        id += 1;
    }
    let mut seven = 0;
    let mut j = 0;
    while j < 4 {
        if j < p.len() && p[j] == 7 {
            seven += 1;
        }
        j += 1;
    }
    assert!(seven == 1 && n.page_id != 7, "the page the root came from is given back once");
    // the dirty page of every live run carries that node
    let (ptr, _len) = *tf.pages.get(&s0.page_id).unwrap();
    let base = ptr.as_ptr() as *const u8;
    assert!(rd64(base, 0) == s0.page_id && unsafe { *base.add(8) } == 1 && rd64(base, 16) == 3 && rd64(base, 24) == 1, "page header of the two-page piece: id, branch, count 3, overflow 1");
    std::mem::forget(n);
    std::mem::forget(tf);
}

// ---- Node::split on a LEAF node (entry sizes concrete, key and value bytes symbolic)
fn split_leaf_case(vlen: usize, ps: u64, exp_pieces: usize) {
    let buf: [u8; 64] = kani::any();
    let t: [u8; 6] = kani::any(); // second key bytes; the first byte fixes the order
    // one FLAT array: a pointer into a nested array ([[u8; 2]; 6]) that has been stored in a heap object comes back
    // as "first row + 10 bytes" and CBMC reads it as an out-of-bounds index of the first row (spurious failure)
    let kb: [u8; 12] = [10, t[0], 20, t[1], 30, t[2], 40, t[3], 50, t[4], 60, t[5]];
    let keys: [[u8; 2]; 6] = [[10, t[0]], [20, t[1]], [30, t[2]], [40, t[3]], [50, t[4]], [60, t[5]]];
    let mut v = Vec::with_capacity(6);
    let mut i = 0;
    while i < 6 {
        v.push(kv(&kb[2 * i..2 * i + 2], &buf[i..i + vlen]));
        i += 1;
    }
    let mut node = leaf_node(v, ps);
    let b = crate::cursor::jv::mk_bucket(3, true);
    let mut ib = b.inner.borrow_mut();
    let r = node.split(&mut ib);
    let mut next = 0usize;
    {
        let first = leaves(&node);
        assert!(first.len() >= 2);
        let mut j = 0;
        while j < 6 {
            if j < first.len() {
                assert!(first[j].key()[0] == keys[next][0] && first[j].key()[1] == keys[next][1] && first[j].value().len() == vlen && (vlen == 0 || first[j].value()[0] == buf[next]), "entries stay in order, with their values");
                next += 1;
            }
            j += 1;
        }
    }
    match &r {
        None => assert!(exp_pieces == 1, "JV-C01-SPLIT: a node larger than its page is split"),
        Some(sibs) => {
            assert!(sibs.len() + 1 == exp_pieces, "JV-C01-SPLIT: pieces are cut where the running size passes half a page");
            assert!(ib.nodes.len() == sibs.len(), "the new pieces are registered with the bucket");
            let mut s = 0;
            while s < 2 {
                if s < sibs.len() {
                    let n = sibs[s].borrow();
                    let part = leaves(&n);
                    assert!(part.len() >= 2, "every piece keeps at least two entries");
                    let mut j = 0;
                    while j < 6 {
                        if j < part.len() {
                            assert!(part[j].key()[0] == keys[next][0] && part[j].key()[1] == keys[next][1] && part[j].value().len() == vlen && (vlen == 0 || part[j].value()[0] == buf[next]), "entries stay in order across pieces");
                            next += 1;
                        }
                        j += 1;
                    }
                }
                s += 1;
            }
        }
    }
    assert!(next == 6, "JV-C01-SPLIT: no entry is lost or duplicated");
    std::mem::forget(r);
    std::mem::forget(node);
    std::mem::forget(ib);
}
// @ob props=C01,C16 tier=quick cap=700 mem=6 fns=Node::split,Node::size,NodeData::size,Leaf::size,NodeData::split_at,InnerBucket::new_node,Node::with_data bound="leaf node, 6 entries of 2-byte key + 50-byte value (84 bytes each; key tail and value bytes symbolic), page size 256: three pieces of two" unwind=8
#[kani::proof]
#[kani::unwind(8)]
fn node_split_leaf_three_pieces() {
    split_leaf_case(50, 256, 3);
}
// @ob props=C01,C16 tier=quick cap=300 fns=Node::split,Node::size,NodeData::size,Leaf::size bound="leaf node, 6 entries of 2-byte key + 2-byte value (36 bytes each, 256 with the header... 40 + 216), page size 512: fits, not split" unwind=8
#[kani::proof]
#[kani::unwind(8)]
fn node_split_leaf_fits() {
    split_leaf_case(2, 512, 1);
}
