// Harnesses mounted as child module `jv` of src/node.rs.
// Obligations: C01-Ob1 (insert/delete in a materialised leaf), C01-Ob2 / C05-Ob5 / C15-Ob2 (node -> page
// encode, decoded by an independent reference reader), C05-Ob3 (a node frees its old run exactly once),
// C16-Ob1 (split / merge thresholds with a symbolic page size).
//
// Container lengths are concrete throughout (a Vec of symbolic length makes every later access symbolic and
// does not decide); key / value *bytes*, page ids, counters and the page size are symbolic.
use super::*;
use crate::freelist::jv::mk_meta;
use crate::freelist::Freelist;

fn rd64(base: *const u8, off: usize) -> u64 {
    let mut b = [0u8; 8];
    let mut i = 0;
    while i < 8 {
        b[i] = unsafe { *base.add(off + i) };
        i += 1;
    }
    u64::from_le_bytes(b)
}

fn kv<'a>(k: &'a [u8], v: &'a [u8]) -> Leaf<'a> {
    Leaf::Kv(Bytes::Slice(k), Bytes::Slice(v))
}

fn leaf_node<'a>(v: Vec<Leaf<'a>>, pagesize: u64) -> Node<'a> {
    let mut n = Node::new(0, Page::TYPE_LEAF, pagesize);
    n.data = NodeData::Leaves(v);
    n
}

fn leaves<'a, 'b>(n: &'b Node<'a>) -> &'b Vec<Leaf<'a>> {
    match &n.data {
        NodeData::Leaves(l) => l,
        _ => panic!("not a leaf"),
    }
}

// ---- C01-Ob1: insert_data on a sorted 2-entry leaf: replace on equal key, else insert at the sorted position
// @ob props=C01,C07 tier=quick cap=400 fns=Node::insert_data bound="leaf with 2 sorted symbolic 2-byte keys, inserted key symbolic 2 bytes, kind symbolic (kv or bucket)" unwind=4
#[kani::proof]
#[kani::unwind(4)]
fn node_insert_data_step() {
    let k: [[u8; 2]; 2] = kani::any();
    kani::assume(k[0] < k[1]);
    let vals: [[u8; 1]; 2] = [[10], [11]];
    // spare capacity: the insertion itself is the subject, not Vec growth
    let mut v0 = Vec::with_capacity(3);
    v0.push(kv(&k[0], &vals[0]));
    v0.push(kv(&k[1], &vals[1]));
    let mut n = leaf_node(v0, 256);
    let nk: [u8; 2] = kani::any();
    let nv: [u8; 1] = [99];
    let as_bucket: bool = kani::any();
    let leaf = if as_bucket { Leaf::Bucket(Bytes::Slice(&nk), BucketMeta { root_page: 77, next_int: 5 }) } else { kv(&nk, &nv) };
    n.insert_data(leaf);
    let l = leaves(&n);
    let hit = k[0] == nk || k[1] == nk;
    // expected sequence of (key, tag) where tag 0/1 = original entry, 9 = the new one
    let mut exp_k: [[u8; 2]; 3] = [[0; 2]; 3];
    let mut exp_t: [u8; 3] = [0; 3];
    let mut m = 0usize;
    let mut placed = false;
    let mut i = 0usize;
    while i < 2 {
        if !placed && nk <= k[i] {
            exp_k[m] = nk;
            exp_t[m] = 9;
            m += 1;
            placed = true;
        }
        if k[i] != nk {
            exp_k[m] = k[i];
            exp_t[m] = i as u8;
            m += 1;
        }
        i += 1;
    }
    if !placed {
        exp_k[m] = nk;
        exp_t[m] = 9;
        m += 1;
    }
    assert!(l.len() == m, "an existing key is replaced, a new key adds one entry");
    assert!(m == if hit { 2 } else { 3 });
    let mut j = 0usize;
    while j < 3 {
        if j < m {
            assert!(l[j].key() == &exp_k[j][..], "entries stay in ascending key order");
            if exp_t[j] == 9 {
                assert!(l[j].is_kv() == !as_bucket, "the entry for the inserted key carries the new kind");
                if !as_bucket {
                    assert!(l[j].value() == &nv[..], "and the new value");
                }
            } else {
                assert!(l[j].is_kv() && l[j].value()[0] == 10 + exp_t[j], "other entries keep their value");
            }
        }
        j += 1;
    }
    kani::cover!(hit && exp_t[1] == 9);
    kani::cover!(!hit && exp_t[0] == 9);
    kani::cover!(!hit && exp_t[2] == 9);
    std::mem::forget(n);
}

// ---- C01-Ob1: delete(index) removes exactly that entry and returns it
// @ob props=C01,C07 tier=quick cap=200 fns=Node::delete bound="leaf with 3 symbolic 2-byte keys, any index < 3" unwind=4
#[kani::proof]
#[kani::unwind(4)]
fn node_delete_step() {
    let k: [[u8; 2]; 3] = kani::any();
    let vals: [[u8; 1]; 3] = [[10], [11], [12]];
    let mut n = leaf_node(vec![kv(&k[0], &vals[0]), kv(&k[1], &vals[1]), kv(&k[2], &vals[2])], 256);
    let idx: usize = kani::any();
    kani::assume(idx < 3);
    let gone = n.delete(idx);
    assert!(gone.key() == &k[idx][..] && gone.value() == &vals[idx][..], "delete returns the removed pair");
    let l = leaves(&n);
    assert!(l.len() == 2);
    let a = if idx == 0 { 1 } else { 0 };
    let b = if idx == 2 { 1 } else { 2 };
    assert!(l[0].key() == &k[a][..] && l[0].value() == &vals[a][..]);
    assert!(l[1].key() == &k[b][..] && l[1].value() == &vals[b][..]);
    std::mem::forget(gone);
    std::mem::forget(n);
}

/// reference leaf-page reader at the pinned offsets (see harness/page.rs): returns (type, key ptr, klen, val ptr, vlen)
fn ref_leaf(base: *const u8, i: usize) -> (u8, usize, u64, usize, u64) {
    let e = 32 + 32 * i;
    let t = unsafe { *base.add(e) };
    let pos = rd64(base, e + 8);
    let ks = rd64(base, e + 16);
    let vs = rd64(base, e + 24);
    (t, e + pos as usize, ks, e + (pos + ks) as usize, vs)
}

// ---- C01-Ob2 / C05-Ob5 / C15-Ob2: Page::write_node, decoded by the reference reader at the pinned offsets
// @ob props=C01,C05,C15,C02 tier=quick cap=400 fns=Page::write_node,Node::size,Leaf::key,Leaf::value,Leaf::node_type,Node::from_page,Leaf::from_leaf bound="leaf node with 3 entries: kv(2-byte key,1-byte value), bucket(1-byte name, symbolic header), kv(2-byte key, empty value); all bytes symbolic" unwind=17
#[kani::proof]
#[kani::unwind(17)]
fn node_write_leaf_layout() {
    let k0: [u8; 2] = kani::any();
    let v0: [u8; 1] = kani::any();
    let k1: [u8; 1] = kani::any();
    let bm = BucketMeta { root_page: kani::any(), next_int: kani::any() };
    let k2: [u8; 2] = kani::any();
    let v2: [u8; 0] = [];
    let mut n = leaf_node(vec![kv(&k0, &v0), Leaf::Bucket(Bytes::Slice(&k1), bm), kv(&k2, &v2)], 256);
    let pid: u64 = kani::any();
    n.page_id = pid;
    assert!(n.size() == 40 + 3 * 32 + (2 + 1) + (1 + 16) + 2, "node size = page header + element headers + keys + values");
    let mut buf = [0u64; 32];
    let page = unsafe { &mut *(buf.as_mut_ptr() as *mut Page) };
    page.id = pid;
    page.overflow = 0;
    let r = page.write_node(&n, 1);
    assert!(r.is_ok());
    std::mem::forget(r);
    let base = buf.as_ptr() as *const u8;
    assert!(rd64(base, 0) == pid, "page id");
    assert!(unsafe { *base.add(8) } == 2, "leaf page type");
    assert!(rd64(base, 16) == 3, "count");
    assert!(rd64(base, 24) == 0, "overflow");
    let data0 = 32 + 3 * 32; // data area starts right after the element headers
    let (t, kp, ks, vp, vs) = ref_leaf(base, 0);
    assert!(t == 0 && kp == data0 && ks == 2 && vp == data0 + 2 && vs == 1);
    assert!(unsafe { *base.add(kp) } == k0[0] && unsafe { *base.add(kp + 1) } == k0[1] && unsafe { *base.add(vp) } == v0[0]);
    let (t, kp, ks, vp, vs) = ref_leaf(base, 1);
    assert!(t == 1 && kp == data0 + 3 && ks == 1 && vp == data0 + 4 && vs == 16, "bucket entry: type 1, 16-byte header as value");
    assert!(unsafe { *base.add(kp) } == k1[0]);
    assert!(rd64(base, vp) == bm.root_page && rd64(base, vp + 8) == bm.next_int, "bucket header: root page then counter, little endian");
    let (t, kp, ks, vp, vs) = ref_leaf(base, 2);
    assert!(t == 0 && kp == data0 + 20 && ks == 2 && vp == data0 + 22 && vs == 0);
    assert!(unsafe { *base.add(kp) } == k2[0] && unsafe { *base.add(kp + 1) } == k2[1]);
    assert!((vp as u64) + vs <= n.size(), "every element lies inside Node::size() bytes");
    std::mem::forget(n);
}

// ---- the code's own reader inverts the writer (decode(encode(n)) == n)
// @ob props=C01,C15 tier=parked cap=400 fns=Page::write_node,Node::from_page,Leaf::from_leaf,Page::leaf_elements,LeafElement::key,LeafElement::value,BucketMeta::from bound="same 3-entry leaf node, all bytes symbolic" unwind=17
#[kani::proof]
#[kani::unwind(17)]
fn node_write_leaf_decode() {
    let k0: [u8; 2] = kani::any();
    let v0: [u8; 1] = kani::any();
    let k1: [u8; 1] = kani::any();
    let bm = BucketMeta { root_page: kani::any(), next_int: kani::any() };
    let k2: [u8; 2] = kani::any();
    let v2: [u8; 0] = [];
    let mut n = leaf_node(vec![kv(&k0, &v0), Leaf::Bucket(Bytes::Slice(&k1), bm), kv(&k2, &v2)], 256);
    n.page_id = 9;
    let mut buf = [0u64; 32];
    let page = unsafe { &mut *(buf.as_mut_ptr() as *mut Page) };
    page.id = 9;
    page.overflow = 2;
    let r = page.write_node(&n, 3);
    assert!(r.is_ok());
    std::mem::forget(r);
    let page = unsafe { &*(buf.as_ptr() as *const Page) };
    let back = Node::from_page(1, page, 256);
    let l = leaves(&back);
    assert!(l.len() == 3);
    assert!(l[0].is_kv() && l[0].key() == &k0[..] && l[0].value() == &v0[..]);
    assert!(!l[1].is_kv() && l[1].key() == &k1[..]);
    match &l[1] {
        Leaf::Bucket(_, m) => assert!(m.root_page == bm.root_page && m.next_int == bm.next_int, "nested bucket header survives"),
        _ => panic!("bucket expected"),
    }
    assert!(l[2].is_kv() && l[2].key() == &k2[..] && l[2].value().len() == 0);
    assert!(back.page_id == 9 && back.num_pages == 3, "run = overflow + 1 pages");
    assert!(back.original_key.as_ref().unwrap().as_ref() == &k0[..], "original key = first key");
    std::mem::forget(back);
    std::mem::forget(n);
}

// ---- same for a branch node
// @ob props=C01,C05,C15 tier=quick cap=400 fns=Page::write_node,Node::size,Node::from_page,Branch::key,Page::branch_elements,BranchElement::key bound="branch node with 3 entries, keys of 2, 1 and 2 symbolic bytes, symbolic child page ids > 1" unwind=17
#[kani::proof]
#[kani::unwind(17)]
fn node_write_branch_roundtrip() {
    let k0: [u8; 2] = kani::any();
    let k1: [u8; 1] = kani::any();
    let k2: [u8; 2] = kani::any();
    let c: [u64; 3] = kani::any();
    kani::assume(c[0] > 1 && c[1] > 1 && c[2] > 1);
    let mut n = Node::new(0, Page::TYPE_BRANCH, 256);
    n.data = NodeData::Branches(vec![
        Branch { key: Bytes::Slice(&k0), page: c[0] },
        Branch { key: Bytes::Slice(&k1), page: c[1] },
        Branch { key: Bytes::Slice(&k2), page: c[2] },
    ]);
    n.page_id = 20;
    assert!(n.size() == 40 + 3 * 24 + 5);
    let mut buf = [0u64; 32];
    let page = unsafe { &mut *(buf.as_mut_ptr() as *mut Page) };
    page.id = 20;
    page.overflow = 0;
    let r = page.write_node(&n, 1);
    assert!(r.is_ok());
    std::mem::forget(r);
    let base = buf.as_ptr() as *const u8;
    assert!(rd64(base, 0) == 20 && unsafe { *base.add(8) } == 1 && rd64(base, 16) == 3 && rd64(base, 24) == 0);
    let data0 = 32 + 3 * 24;
    let ks = [2u64, 1, 2];
    let starts = [data0, data0 + 2, data0 + 3];
    let mut i = 0usize;
    while i < 3 {
        let e = 32 + 24 * i;
        assert!(rd64(base, e) == c[i], "child page id");
        assert!(rd64(base, e + 8) == ks[i], "key size");
        assert!(e + rd64(base, e + 16) as usize == starts[i], "key position, relative to the element");
        i += 1;
    }
    assert!(unsafe { *base.add(starts[0]) } == k0[0] && unsafe { *base.add(starts[0] + 1) } == k0[1]);
    assert!(unsafe { *base.add(starts[1]) } == k1[0]);
    assert!(unsafe { *base.add(starts[2]) } == k2[0] && unsafe { *base.add(starts[2] + 1) } == k2[1]);
    let page = unsafe { &*(base as *const Page) };
    let back = Node::from_page(1, page, 256);
    match &back.data {
        NodeData::Branches(b) => {
            assert!(b.len() == 3 && b[0].key() == &k0[..] && b[1].key() == &k1[..] && b[2].key() == &k2[..]);
            assert!(b[0].page == c[0] && b[1].page == c[1] && b[2].page == c[2]);
        }
        _ => panic!("branch expected"),
    }
    assert!(back.original_key.as_ref().unwrap().as_ref() == &k0[..], "original key = first key");
    std::mem::forget(back);
    std::mem::forget(n);
}

fn one_entry_node<'a>(k0: &'a [u8; 2], v0: &'a [u8; 1]) -> Node<'a> {
    let mut n = leaf_node(vec![kv(&k0[..], &v0[..])], 256);
    n.page_id = 7;
    n.num_pages = 2;
    n
}

// ---- C05-Ob3: Node::write frees the old run (pending, not reusable), takes a fresh run, records it, and the
//      dirty page carries the node
// @ob props=C05,C02,C10,C01 tier=parked cap=400 fns=Node::write,Node::allocate,Node::free_page,TxFreelist::free,TxFreelist::allocate,Page::write_node bound="one-entry leaf backed by run (7, 2 pages); tx id 9; high-water mark 20; empty free set; symbolic key / value bytes" unwind=5
#[kani::proof]
#[kani::unwind(5)]
fn node_write_reallocates() {
    let k0: [u8; 2] = kani::any();
    let v0: [u8; 1] = kani::any();
    let mut tf = TxFreelist::new(mk_meta(256, 20, 9), Freelist::new());
    let mut n = one_entry_node(&k0, &v0);
    let r = n.write(&mut tf);
    assert!(r.is_ok());
    std::mem::forget(r);
    assert!(n.page_id == 20 && n.num_pages == 1, "rewritten to a fresh run at the high-water mark");
    assert!(tf.meta.num_pages == 21);
    assert!(tf.pages.len() == 1);
    let (ptr, len) = *tf.pages.get(&20).unwrap();
    assert!(len as u64 == n.size(), "dirty map records the node's byte length");
    let base = ptr.as_ptr() as *const u8;
    assert!(rd64(base, 0) == 20 && unsafe { *base.add(8) } == 2 && rd64(base, 16) == 1 && rd64(base, 24) == 0, "page header: id, leaf, count, overflow");
    assert!(unsafe { *base.add(64) } == k0[0] && unsafe { *base.add(66) } == v0[0], "entry bytes follow the element header");
    let p = crate::freelist::jv::pending_of(&tf.inner, 9).unwrap();
    assert!(p.len() == 2 && p[0] == 7 && p[1] == 8, "the old run is pending under this transaction, once");
    assert!(crate::freelist::jv::n_free(&tf.inner) == 0, "nothing freed in this transaction is reusable in it");
    std::mem::forget(n);
    std::mem::forget(tf);
}

// @ob props=C05,C02 tier=quick cap=300 fns=Node::free_page,TxFreelist::free bound="node backed by run (7, 2 pages), free_page called twice" unwind=5
#[kani::proof]
#[kani::unwind(5)]
fn node_free_page_once() {
    let k0: [u8; 2] = kani::any();
    let v0: [u8; 1] = kani::any();
    let mut tf = TxFreelist::new(mk_meta(256, 20, 9), Freelist::new());
    let mut n = one_entry_node(&k0, &v0);
    n.free_page(&mut tf);
    n.free_page(&mut tf);
    assert!(n.page_id == 0);
    assert!(tf.pages.len() == 0 && tf.meta.num_pages == 20);
    let p = crate::freelist::jv::pending_of(&tf.inner, 9).unwrap();
    assert!(p.len() == 2 && p[0] == 7 && p[1] == 8, "freed exactly once");
    assert!(crate::freelist::jv::n_free(&tf.inner) == 0);
    std::mem::forget(n);
    std::mem::forget(tf);
}

// @ob props=C05 tier=quick cap=300 fns=Node::write bound="deleted node backed by run (7, 2 pages)" unwind=5
#[kani::proof]
#[kani::unwind(5)]
fn node_deleted_not_written() {
    let k0: [u8; 2] = kani::any();
    let v0: [u8; 1] = kani::any();
    let mut tf = TxFreelist::new(mk_meta(256, 20, 9), Freelist::new());
    let mut n = one_entry_node(&k0, &v0);
    n.deleted = true;
    let r = n.write(&mut tf);
    assert!(r.is_ok());
    std::mem::forget(r);
    assert!(tf.pages.len() == 0 && tf.meta.num_pages == 20, "a deleted node is not written");
    assert!(n.page_id == 7);
    assert!(crate::freelist::jv::n_pending_lists(&tf.inner) == 0);
    std::mem::forget(n);
    std::mem::forget(tf);
}

// ---- C16-Ob1: needs_merging arithmetic for every page size
// @ob props=C16,C01 tier=quick cap=200 fns=Node::needs_merging,Node::size,NodeData::size,Leaf::size bound="leaf with 1..=3 entries (3 variants), value lengths symbolic in 0..=4096, page size any u64 >= 64" unwind=5
#[kani::proof]
#[kani::unwind(5)]
fn node_needs_merging_arith() {
    static BUF: [u8; 4096] = [0; 4096];
    let l: [usize; 3] = kani::any();
    kani::assume(l[0] <= 4096 && l[1] <= 4096 && l[2] <= 4096);
    let ps: u64 = kani::any();
    kani::assume(ps >= 64);
    let k: [u8; 2] = kani::any();
    let which: u8 = kani::any();
    let n = if which == 0 {
        leaf_node(vec![kv(&k, &BUF[..l[0]])], ps)
    } else if which == 1 {
        leaf_node(vec![kv(&k, &BUF[..l[0]]), kv(&k, &BUF[..l[1]])], ps)
    } else {
        leaf_node(vec![kv(&k, &BUF[..l[0]]), kv(&k, &BUF[..l[1]]), kv(&k, &BUF[..l[2]])], ps)
    };
    let cnt: u64 = if which == 0 { 1 } else if which == 1 { 2 } else { 3 };
    let mut total = 40 + cnt * 32 + cnt * 2 + l[0] as u64;
    if cnt >= 2 {
        total += l[1] as u64;
    }
    if cnt >= 3 {
        total += l[2] as u64;
    }
    assert!(n.size() == total);
    assert!(n.needs_merging() == (cnt < 2 || total < ps / 4), "merge iff fewer than 2 entries or under a quarter page");
    kani::cover!(cnt == 3 && n.needs_merging());
    kani::cover!(cnt == 2 && !n.needs_merging());
    std::mem::forget(n);
}




// ---- C16-Ob1 / C01: Node::split with the page size symbolic: the pieces partition the entries in order, nothing is
//      lost or duplicated, every piece keeps at least 2 entries, no index under- or overflows
// @ob props=C16,C01,C05 tier=parked cap=1200 mem=8 fns=Node::split,Node::size,NodeData::split_at,InnerBucket::new_node,Node::with_data bound="leaf node with 6 entries (concrete 1-byte keys 1..6), value lengths symbolic in 0..=600, page size symbolic in 64..=4096" unwind=8
#[kani::proof]
#[kani::unwind(8)]
fn node_split_partition() {
    static BUF: [u8; 600] = [0; 600];
    let ps: u64 = kani::any();
    kani::assume(ps >= 64 && ps <= 4096);
    let l: [usize; 6] = kani::any();
    let mut i = 0;
    while i < 6 {
        kani::assume(l[i] <= 600);
        i += 1;
    }
    let keys: [[u8; 1]; 6] = [[1], [2], [3], [4], [5], [6]];
    let mut v = Vec::with_capacity(6);
    let mut i = 0;
    while i < 6 {
        v.push(kv(&keys[i], &BUF[..l[i]]));
        i += 1;
    }
    let mut node = leaf_node(v, ps);
    let total = node.size();
    let b = crate::cursor::jv::mk_bucket(3, true);
    let mut ib = b.inner.borrow_mut();
    let r = node.split(&mut ib);
    // walk the pieces in order and check they are exactly keys 1..6
    let mut next_key = 1u8;
    let mut pieces = 0usize;
    {
        let first = leaves(&node);
        assert!(first.len() >= 2 || r.is_none(), "the first piece keeps at least two entries");
        let mut j = 0;
        while j < 6 {
            if j < first.len() {
                assert!(first[j].key()[0] == next_key, "entries stay in order");
                next_key += 1;
            }
            j += 1;
        }
        pieces += 1;
    }
    if let Some(sibs) = &r {
        assert!(total >= ps, "a node is only split when it does not fit a page");
        assert!(sibs.len() >= 1 && sibs.len() <= 2);
        let mut s = 0;
        while s < 2 {
            if s < sibs.len() {
                let n = sibs[s].borrow();
                let part = leaves(&n);
                assert!(part.len() >= 2, "every piece keeps at least two entries");
                let mut j = 0;
                while j < 6 {
                    if j < part.len() {
                        assert!(part[j].key()[0] == next_key, "entries stay in order across pieces");
                        next_key += 1;
                    }
                    j += 1;
                }
                pieces += 1;
            }
            s += 1;
        }
    }
    assert!(next_key == 7, "no entry is lost or duplicated");
    kani::cover!(pieces == 2);
    kani::cover!(pieces == 3);
    kani::cover!(pieces == 1 && total >= ps, "over-full but unsplittable");
    std::mem::forget(r);
    std::mem::forget(node);
}
