// Harnesses mounted as child module `jv` of src/page_node.rs.
// Obligations: C01-Ob3 / C08-Ob1: the binary search contract of PageNode::index, index_page, val, len.
use super::*;
use crate::bytes::Bytes;
use crate::node::Branch;

/// hand-lay a leaf page with 3 two-byte keys per the pinned layout (see harness/page.rs)
pub(crate) fn lay_leaf_at(base: *mut u8, keys: &[[u8; 2]; 3], n: usize) {
    unsafe {
        *(base as *mut u64) = 3; // id
        *(base.add(8) as *mut u64) = 2; // leaf (whole-word store, see harness/cursor.rs put_leaf_page_at)
        *(base.add(16) as *mut u64) = n as u64;
        *(base.add(24) as *mut u64) = 0;
        let mut i = 0usize;
        while i < 3 {
            if i < n {
                let e = base.add(32 + 32 * i) as *mut u64;
                *e = 0;
                *e.add(1) = (32 * (n - i) + 3 * i) as u64; // pos relative to the element
                *e.add(2) = 2;
                *e.add(3) = 1;
                let d = base.add(32 + 32 * n + 3 * i);
                *d = keys[i][0];
                *d.add(1) = keys[i][1];
                *d.add(2) = 7 + i as u8;
            }
            i += 1;
        }
    }
}

pub(crate) fn lay_branch_at(base: *mut u8, keys: &[[u8; 2]; 3], n: usize) {
    unsafe {
        *(base as *mut u64) = 3;
        *(base.add(8) as *mut u64) = 1; // branch
        *(base.add(16) as *mut u64) = n as u64;
        *(base.add(24) as *mut u64) = 0;
        let mut i = 0usize;
        while i < 3 {
            if i < n {
                let e = base.add(32 + 24 * i) as *mut u64;
                *e = 10 + i as u64; // child page
                *e.add(1) = 2; // key_size
                *e.add(2) = (24 * (n - i) + 2 * i) as u64; // pos
                let d = base.add(32 + 24 * n + 2 * i);
                *d = keys[i][0];
                *d.add(1) = keys[i][1];
            }
            i += 1;
        }
    }
}

fn lay_leaf(buf: &mut [u64; 32], keys: &[[u8; 2]; 3], n: usize) {
    lay_leaf_at(buf.as_mut_ptr() as *mut u8, keys, n)
}
fn lay_branch(buf: &mut [u64; 32], keys: &[[u8; 2]; 3], n: usize) {
    lay_branch_at(buf.as_mut_ptr() as *mut u8, keys, n)
}

fn contract(keys: &[[u8; 2]; 3], n: usize, probe: &[u8], got: (usize, bool)) {
    let mut below = 0usize;
    let mut hit = false;
    let mut i = 0;
    while i < 3 {
        if i < n {
            if &keys[i][..] < probe {
                below += 1;
            }
            if &keys[i][..] == probe {
                hit = true;
            }
        }
        i += 1;
    }
    assert!(got.1 == hit, "exact flag iff the key is present");
    if hit {
        assert!(got.0 == below, "an exact hit returns the entry's own slot");
    } else {
        assert!(got.0 == below.saturating_sub(1), "a miss returns the slot before the insertion point (0 below everything)");
    }
}

fn sorted_keys(n: usize) -> [[u8; 2]; 3] {
    let keys: [[u8; 2]; 3] = kani::any();
    if n >= 2 {
        kani::assume(keys[0] < keys[1]);
    }
    if n >= 3 {
        kani::assume(keys[1] < keys[2]);
    }
    keys
}

fn any_probe() -> ([u8; 3], usize) {
    let p: [u8; 3] = kani::any();
    let l: usize = kani::any();
    kani::assume(l <= 3);
    (p, l)
}

// @ob props=C01,C08 tier=quick cap=240 fns=PageNode::index,Page::leaf_elements,LeafElement::key bound="leaf page, 0..=3 sorted 2-byte keys, probe of 0..=3 bytes" unwind=5
#[kani::proof]
#[kani::unwind(5)]
fn index_leaf_page() {
    let n: usize = kani::any();
    kani::assume(n <= 3);
    let keys = sorted_keys(n);
    let mut buf = [0u64; 32];
    lay_leaf(&mut buf, &keys, n);
    let page = unsafe { &*(buf.as_ptr() as *const Page) };
    let pn = PageNode::Page(page);
    let (p, l) = any_probe();
    let got = pn.index(&p[..l]);
    contract(&keys, n, &p[..l], got);
    assert!(pn.len() == n && pn.leaf());
    kani::cover!(got.1 && got.0 == 2);
    kani::cover!(!got.1 && got.0 == 0 && n == 3 && &p[..l] < &keys[0][..]);
    kani::cover!(!got.1 && got.0 == 2);
    kani::cover!(n == 0);
}

// @ob props=C01,C08 tier=quick cap=240 fns=PageNode::index,PageNode::index_page,Page::branch_elements,BranchElement::key bound="branch page, 1..=3 sorted 2-byte keys, probe of 0..=3 bytes" unwind=5
#[kani::proof]
#[kani::unwind(5)]
fn index_branch_page() {
    let n: usize = kani::any();
    kani::assume(n >= 1 && n <= 3);
    let keys = sorted_keys(n);
    let mut buf = [0u64; 32];
    lay_branch(&mut buf, &keys, n);
    let page = unsafe { &*(buf.as_ptr() as *const Page) };
    let pn = PageNode::Page(page);
    let (p, l) = any_probe();
    let got = pn.index(&p[..l]);
    contract(&keys, n, &p[..l], got);
    assert!(pn.len() == n && !pn.leaf());
    // descent: the child followed is the one whose separator is the greatest <= probe (first child below everything)
    assert!(pn.index_page(got.0) == 10 + got.0 as u64);
    assert!(pn.index_page(n) == 0, "index_page past the end returns the null page");
    kani::cover!(got.1 && got.0 == 1);
    kani::cover!(!got.1 && got.0 == 2);
}

// @ob props=C01,C08 tier=quick cap=300 fns=PageNode::index,PageNode::val,PageNode::len bound="materialised leaf node, exactly 3 sorted symbolic 2-byte keys, probe of 0..=3 bytes" unwind=5
#[kani::proof]
#[kani::unwind(5)]
fn index_leaf_node() {
    let n: usize = 3; // concrete length: a Vec of symbolic length makes every later Vec access symbolic (OOM at 10 GB)
    let keys = sorted_keys(n);
    let mut node = Node::new(0, Page::TYPE_LEAF, 256);
    let mut v: Vec<Leaf> = Vec::with_capacity(3);
    let mut i = 0;
    while i < 3 {
        if i < n {
            v.push(Leaf::Kv(Bytes::Slice(&keys[i][..]), Bytes::Slice(&keys[i][..1])));
        }
        i += 1;
    }
    node.data = NodeData::Leaves(v);
    let pn = PageNode::Node(Rc::new(RefCell::new(node)));
    let (p, l) = any_probe();
    let got = pn.index(&p[..l]);
    contract(&keys, n, &p[..l], got);
    assert!(pn.len() == n && pn.leaf());
    if got.1 {
        let leaf = pn.val(got.0).unwrap();
        assert!(leaf.key() == &p[..l]);
        std::mem::forget(leaf);
    }
    assert!(pn.val(n).is_none());
    kani::cover!(got.1 && got.0 == 2);
    kani::cover!(!got.1 && got.0 == 1);
    std::mem::forget(pn);
}

// @ob props=C01,C08 tier=quick cap=300 fns=PageNode::index,PageNode::index_page bound="materialised branch node, exactly 3 sorted symbolic 2-byte keys, probe of 0..=3 bytes" unwind=5
#[kani::proof]
#[kani::unwind(5)]
fn index_branch_node() {
    let n: usize = 3; // concrete length, see index_leaf_node
    let keys = sorted_keys(n);
    // build the node from a hand-laid branch page through the real Node::from_page (Branch's key field is private)
    let mut buf = [0u64; 32];
    lay_branch(&mut buf, &keys, n);
    let page = unsafe { &*(buf.as_ptr() as *const Page) };
    let node = Node::from_page(1, page, 256);
    let pn = PageNode::Node(Rc::new(RefCell::new(node)));
    let (p, l) = any_probe();
    let got = pn.index(&p[..l]);
    contract(&keys, n, &p[..l], got);
    assert!(pn.len() == n && !pn.leaf());
    assert!(pn.index_page(got.0) == 10 + got.0 as u64);
    assert!(pn.index_page(n) == 0);
    kani::cover!(got.1 && got.0 == 2);
    kani::cover!(!got.1 && got.0 == 0);
    std::mem::forget(pn);
}

// ---- keys of DIFFERENT lengths, including the EMPTY key and a key that is a strict prefix of its successor
//      (jammdb accepts the empty key; binary search must find it like any other)
// @ob props=C01,C08 tier=quick cap=300 fns=PageNode::index,Page::leaf_elements,LeafElement::key bound="leaf page with 3 keys of 0, 1 and 2 bytes (sorted, symbolic; the 1-byte key may be a prefix of the 2-byte key), probe of 0..=3 bytes" unwind=5
#[kani::proof]
#[kani::unwind(5)]
fn index_leaf_page_varlen_keys() {
    let k1: [u8; 1] = kani::any();
    let k2: [u8; 2] = kani::any();
    kani::assume(&k1[..] < &k2[..]);
    let mut buf = [0u64; 32];
    let e: [u8; 0] = [];
    crate::cursor::jv::put_leaf_page_at(buf.as_mut_ptr() as *mut u8, 0, 0, &[
        crate::cursor::jv::Ent { t: 0, k: &e, v: &[1] },
        crate::cursor::jv::Ent { t: 0, k: &k1, v: &[2] },
        crate::cursor::jv::Ent { t: 0, k: &k2, v: &[3] },
    ]);
    let page = unsafe { &*(buf.as_ptr() as *const Page) };
    let pn = PageNode::Page(page);
    let (p, l) = any_probe();
    let probe = &p[..l];
    let got = pn.index(probe);
    let keys: [&[u8]; 3] = [&e, &k1, &k2];
    let mut below = 0usize;
    let mut hit = false;
    let mut i = 0;
    while i < 3 {
        if keys[i] < probe {
            below += 1;
        }
        if keys[i] == probe {
            hit = true;
        }
        i += 1;
    }
    assert!(got.1 == hit, "JV-C01-VARLEN: exact flag iff the key is present (also for the empty key and for prefixes)");
    assert!(got.0 == if hit { below } else { below.saturating_sub(1) }, "JV-C01-VARLEN: slot of the key, or the slot before the insertion point");
    kani::cover!(hit && l == 0);
    kani::cover!(hit && l == 1);
    kani::cover!(!hit && l == 2 && probe[0] == k1[0] && below == 2, "opt: a probe that extends the 1-byte key");
}
