// Harnesses mounted as child module `jv` of src/page.rs.
// Obligations: C15-Ob1 (read side layout conformance), C16-Ob4 (alignment), C12 (page-type of a header view).
//
// The pinned on-disk layout, written down independently of the code:
//   page header : id@0 u64 | type@8 u8 | count@16 u64 | overflow@24 u64 | data@32
//   leaf element (32 bytes) : type@0 u8 | pos@8 | key_size@16 | value_size@24 ; pos relative to the element
//   branch element (24 bytes): page@0 | key_size@8 | pos@16 ; pos relative to the element
//   free list page: count ids (u64, native endian) from data@32
//   header record from data@32 (see harness/meta.rs for its fields)
use super::*;

const WORDS: usize = 32; // 256-byte page buffer

fn rd64(base: *const u8, off: usize) -> u64 {
    let mut b = [0u8; 8];
    let mut i = 0;
    while i < 8 {
        b[i] = unsafe { *base.add(off + i) };
        i += 1;
    }
    u64::from_le_bytes(b)
}

// @ob props=C15 tier=quick cap=120 fns=Page,LeafElement,BranchElement bound="layout constants" unwind=2
#[kani::proof]
fn page_layout_offsets() {
    let buf: [u64; 8] = kani::any();
    let p = unsafe { &*(buf.as_ptr() as *const Page) };
    let base = p as *const Page as usize;
    assert!(&p.id as *const u64 as usize - base == 0);
    assert!(&p.page_type as *const u8 as usize - base == 8);
    assert!(&p.count as *const u64 as usize - base == 16);
    assert!(&p.overflow as *const u64 as usize - base == 24);
    assert!(&p.ptr as *const u64 as usize - base == 32);
    assert!(size_of::<Page>() == 40);
    assert!(size_of::<LeafElement>() == 32);
    assert!(size_of::<BranchElement>() == 24);
    let l = unsafe { &*(buf.as_ptr() as *const LeafElement) };
    let lb = l as *const LeafElement as usize;
    assert!(&l.node_type as *const u8 as usize - lb == 0);
    assert!(&l.pos as *const u64 as usize - lb == 8);
    assert!(&l.key_size as *const u64 as usize - lb == 16);
    assert!(&l.value_size as *const u64 as usize - lb == 24);
    let b = unsafe { &*(buf.as_ptr() as *const BranchElement) };
    let bb = b as *const BranchElement as usize;
    assert!(&b.page as *const u64 as usize - bb == 0);
    assert!(&b.key_size as *const u64 as usize - bb == 8);
    assert!(&b.pos as *const u64 as usize - bb == 16);
    assert!(Page::TYPE_BRANCH == 1 && Page::TYPE_LEAF == 2 && Page::TYPE_META == 3 && Page::TYPE_FREELIST == 4);
    assert!(Node::TYPE_DATA == 0 && Node::TYPE_BUCKET == 1);
}

// ---- C15-Ob1: leaf accessors return what the reference decoder reads at the pinned offsets
// @ob props=C15,C01 tier=quick cap=240 fns=Page::leaf_elements,LeafElement::key,LeafElement::value bound="fully symbolic 256-byte page, count<=3, every element's data inside the page" unwind=9
#[kani::proof]
#[kani::unwind(9)]
fn page_leaf_decode_ref() {
    let buf: [u64; WORDS] = kani::any();
    let base = buf.as_ptr() as *const u8;
    let page = unsafe { &*(base as *const Page) };
    kani::assume(page.page_type == 2);
    let count = rd64(base, 16);
    kani::assume(count <= 3);
    let elems = page.leaf_elements();
    assert!(elems.len() as u64 == count);
    assert!(elems.as_ptr() as usize == base as usize + 32);
    let i: usize = kani::any();
    kani::assume((i as u64) < count);
    let eoff = 32 + 32 * i;
    let pos = rd64(base, eoff + 8);
    let ks = rd64(base, eoff + 16);
    let vs = rd64(base, eoff + 24);
    kani::assume(pos <= 256 && ks <= 256 && vs <= 256);
    kani::assume(eoff as u64 + pos + ks + vs <= 256);
    let e = &elems[i];
    assert!(e.node_type == unsafe { *base.add(eoff) });
    let k = e.key();
    let v = e.value();
    assert!(k.len() as u64 == ks && k.as_ptr() as usize == base as usize + eoff + pos as usize, "key = key_size bytes at element + pos");
    assert!(v.len() as u64 == vs && v.as_ptr() as usize == base as usize + eoff + (pos + ks) as usize, "value follows the key");
    kani::cover!(i == 2 && ks == 2 && vs == 0);
}

// @ob props=C15,C01 tier=quick cap=240 fns=Page::branch_elements,BranchElement::key bound="fully symbolic 256-byte page, count<=3, key inside the page" unwind=9
#[kani::proof]
#[kani::unwind(9)]
fn page_branch_decode_ref() {
    let buf: [u64; WORDS] = kani::any();
    let base = buf.as_ptr() as *const u8;
    let page = unsafe { &*(base as *const Page) };
    kani::assume(page.page_type == 1);
    let count = rd64(base, 16);
    kani::assume(count <= 3);
    let elems = page.branch_elements();
    assert!(elems.len() as u64 == count);
    assert!(elems.as_ptr() as usize == base as usize + 32);
    let i: usize = kani::any();
    kani::assume((i as u64) < count);
    let eoff = 32 + 24 * i;
    let child = rd64(base, eoff);
    let ks = rd64(base, eoff + 8);
    let pos = rd64(base, eoff + 16);
    kani::assume(pos <= 256 && ks <= 256);
    kani::assume(eoff as u64 + pos + ks <= 256);
    let e = &elems[i];
    assert!(e.page == child);
    let k = e.key();
    assert!(k.len() as u64 == ks && k.as_ptr() as usize == base as usize + eoff + pos as usize);
    kani::cover!(i == 2 && ks == 3);
}

// @ob props=C15,C10 tier=quick cap=120 fns=Page::freelist,Page::meta,Page::old_meta bound="fully symbolic 256-byte page, count<=8" unwind=9
#[kani::proof]
#[kani::unwind(9)]
fn page_freelist_and_meta_views() {
    let buf: [u64; WORDS] = kani::any();
    let base = buf.as_ptr() as *const u8;
    let page = unsafe { &*(base as *const Page) };
    let t = unsafe { *base.add(8) };
    kani::assume(t == 3 || t == 4);
    if t == 4 {
        let count = rd64(base, 16);
        kani::assume(count <= 8);
        let ids = page.freelist();
        assert!(ids.len() as u64 == count);
        assert!(ids.as_ptr() as usize == base as usize + 32, "free-list ids start at the data offset");
        let i: usize = kani::any();
        kani::assume((i as u64) < count);
        assert!(ids[i] == rd64(base, 32 + 8 * i));
    } else {
        let m = page.meta();
        assert!(m as *const Meta as usize == base as usize + 32, "header record starts at the data offset");
        assert!(m.tx_id == rd64(base, 32 + 56));
        assert!(m.hash == rd64(base, 32 + 64));
        assert!(m.pagesize == rd64(base, 32 + 16));
        assert!(m.root.root_page == rd64(base, 32 + 24));
        assert!(m.freelist_page == rd64(base, 32 + 48));
        let o = page.old_meta();
        assert!(o as *const OldMeta as usize == base as usize + 32);
        assert!(o.tx_id == rd64(base, 32 + 56));
    }
}

// ---- Pages::page(id) addresses byte id * pagesize of the map
// @ob props=C15,C03 tier=quick cap=120 fns=Pages::page,Page::from_buf bound="256-byte pages, 8-page map, any id < 8" unwind=2
#[kani::proof]
fn pages_page_addressing() {
    let buf = [0u64; 256];
    let m = memmap2::Mmap::from_raw(buf.as_ptr() as *const u8, 2048);
    let pages = Pages::new(Arc::new(m), 256);
    let id: u64 = kani::any();
    kani::assume(id < 8);
    let p = pages.page(id);
    assert!(p as *const Page as usize == buf.as_ptr() as usize + (id as usize) * 256);
    let q = Page::from_buf(&pages.data, id, 256);
    assert!(q as *const Page as usize == p as *const Page as usize);
}
