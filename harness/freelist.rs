// Harnesses mounted as child module `jv` of src/freelist.rs (reaches private fields).
// Obligations: C05-Ob1..Ob4, C10-Ob1..Ob3, C03-Ob1, C12-Ob5, C16-Ob2.
use super::*;

macro_rules! unroll8 {
    ($i:ident => $b:block) => {
        { let $i: u64 = 0; $b } { let $i: u64 = 1; $b } { let $i: u64 = 2; $b } { let $i: u64 = 3; $b }
        { let $i: u64 = 4; $b } { let $i: u64 = 5; $b } { let $i: u64 = 6; $b } { let $i: u64 = 7; $b }
    };
}

/// free set from a bit mask: bit i <=> page i+2 is free (pages 2..=9); loop-free
pub(crate) fn fl_from_mask(mask: u8) -> Freelist {
    let mut fl = Freelist::new();
    unroll8!(i => { if mask & (1u8 << i) != 0 { fl.free_pages.insert(i + 2); } });
    fl
}

pub(crate) fn free_mask(fl: &Freelist) -> u8 {
    let mut m = 0u8;
    unroll8!(i => { if fl.free_pages.contains(&(i + 2)) { m |= 1u8 << i; } });
    m
}

/// reference: first run of n consecutive set bits (lowest start), as a page id; loop-free
fn first_run(mask: u8, n: u64) -> Option<u64> {
    let run: u8 = ((1u16 << n) - 1) as u8;
    let mut r = None;
    unroll8!(s => { if r.is_none() && s + n <= 8 && (mask >> s) & run == run { r = Some(s + 2); } });
    r
}

// ---- C05-Ob1 / C10-Ob1: Freelist::allocate returns the first fitting run, removes exactly it,
//      and returns Some whenever a run of n exists (completeness)
// @ob props=C05,C10 tier=quick cap=150 fns=Freelist::allocate bound="free set = any subset of pages 2..=9 (8-bit mask), n in 1..=4" unwind=10
#[kani::proof]
#[kani::unwind(10)]
fn fl_allocate_step() {
    let mask: u8 = kani::any();
    let mut fl = fl_from_mask(mask);
    let n: usize = kani::any();
    kani::assume(n >= 1 && n <= 4);
    let r = fl.allocate(n);
    let expect = first_run(mask, n as u64);
    assert!(r == expect, "allocate returns the first run of n free pages, or None iff none exists");
    let after = free_mask(&fl);
    match r {
        Some(p) => {
            let run: u8 = (((1u16 << n) - 1) as u8) << (p - 2);
            assert!(after == mask & !run, "exactly the returned run left the free set");
            assert!(fl.free_pages.len() == (mask.count_ones() as usize) - n);
        }
        None => {
            assert!(after == mask, "a failed allocation leaves the free set untouched");
        }
    }
    assert!(fl.pending_pages.len() == 0);
    kani::cover!(r.is_some() && r != Some(2) && n == 2, "run found, not at the start");
    kani::cover!(r.is_none() && mask != 0, "no run although pages are free");
    kani::cover!(r == Some(8) && n == 2, "run ends at the last free page");
}

// ---- C03-Ob1 / C10-Ob2: release(x) moves exactly the pending lists with key < x
// (container lengths concrete, ids and the bound symbolic)
// @ob props=C03,C10 tier=quick cap=300 fns=Freelist::release bound="3 pending lists with any ascending u64 tx ids, 2 pages each, 2 free pages, any release bound x" unwind=5
#[kani::proof]
#[kani::unwind(5)]
fn fl_release_step() {
    let mut fl = Freelist::new();
    fl.free_pages.jv_push_back(2);
    fl.free_pages.jv_push_back(3);
    let t: [u64; 3] = kani::any();
    kani::assume(t[0] < t[1] && t[1] < t[2]);
    // list i owns pages 6+2i and 7+2i; the lists are stored out of page order on purpose
    fl.pending_pages.jv_push_back(t[0], vec![9, 8]);
    fl.pending_pages.jv_push_back(t[1], vec![6, 7]);
    fl.pending_pages.jv_push_back(t[2], vec![11, 10]);
    let first = [9u64, 6, 11];
    let second = [8u64, 7, 10];
    let x: u64 = kani::any();
    fl.release(x);
    let mut i = 0usize;
    while i < 3 {
        let should_free = t[i] < x;
        assert!(fl.free_pages.contains(&first[i]) == should_free, "released iff freed by a tx older than x");
        assert!(fl.free_pages.contains(&second[i]) == should_free, "the whole list is released");
        let still = fl.pending_pages.get(&t[i]);
        if t[i] >= x {
            assert!(still.is_some(), "a list with id >= x stays pending");
            let v = still.unwrap();
            assert!(v.len() == 2 && v[0] == first[i] && v[1] == second[i]);
        } else {
            assert!(still.is_none(), "a released list is removed from pending");
        }
        i += 1;
    }
    assert!(fl.free_pages.contains(&2) && fl.free_pages.contains(&3), "free pages stay free");
    let released = (t[0] < x) as usize + (t[1] < x) as usize + (t[2] < x) as usize;
    assert!(fl.free_pages.len() == 2 + 2 * released);
    assert!(fl.pending_pages.len() == 3 - released);
    kani::cover!(t[0] < x && t[1] >= x, "one list released, two retained");
    kani::cover!(t[2] < x, "everything released");
    kani::cover!(x <= t[0], "nothing released");
    kani::cover!(x == t[1], "bound equals a pending id: that list stays");
    std::mem::forget(fl);
}

// ---- C12-Ob5 / C02: Freelist::free only appends to the pending list of its tx; the free set is untouched
// @ob props=C12,C05,C02 tier=quick cap=150 fns=Freelist::free bound="any free subset of 2..=9, two frees with any tx ids / page ids" unwind=10
#[kani::proof]
#[kani::unwind(10)]
fn fl_free_is_pending_only() {
    let fm: u8 = kani::any();
    let mut fl = fl_from_mask(fm);
    let t0: u64 = kani::any();
    let t1: u64 = kani::any();
    let p0: u64 = kani::any();
    let p1: u64 = kani::any();
    kani::assume(p0 > 1 && p1 > 1);
    fl.free(t0, p0);
    fl.free(t1, p1);
    assert!(free_mask(&fl) == fm);
    assert!(fl.free_pages.len() == fm.count_ones() as usize);
    if t0 == t1 {
        assert!(fl.pending_pages.len() == 1);
        let v = fl.pending_pages.get(&t0).unwrap();
        assert!(v.len() == 2 && v[0] == p0 && v[1] == p1);
    } else {
        assert!(fl.pending_pages.len() == 2);
        let v0 = fl.pending_pages.get(&t0).unwrap();
        let v1 = fl.pending_pages.get(&t1).unwrap();
        assert!(v0.len() == 1 && v0[0] == p0);
        assert!(v1.len() == 1 && v1[0] == p1);
    }
    kani::cover!(t0 == t1);
    kani::cover!(t0 != t1);
    std::mem::forget(fl);
}

// ---- C05-Ob4 / C10-Ob4: pages() is the sorted union of free and pending; size() matches
// (the number of entries is concrete: std's sort_unstable over a slice of symbolic length does not
//  finish symbolic execution in 300 s; the page ids themselves are symbolic)
// @ob props=C05,C10,C02 tier=quick cap=300 fns=Freelist::pages,Freelist::size bound="2 free pages and pending lists of 2 and 1 pages, all five ids any distinct u64 >= 2, any two tx ids" unwind=8
#[kani::proof]
#[kani::unwind(8)]
fn fl_pages_union() {
    let p: [u64; 5] = kani::any();
    let mut i = 0;
    while i < 5 {
        kani::assume(p[i] >= 2);
        let mut j = 0;
        while j < i {
            kani::assume(p[i] != p[j]);
            j += 1;
        }
        i += 1;
    }
    let mut fl = Freelist::new();
    kani::assume(p[0] < p[1]);
    fl.free_pages.jv_push_back(p[0]);
    fl.free_pages.jv_push_back(p[1]);
    let t0: u64 = kani::any();
    let t1: u64 = kani::any();
    kani::assume(t0 < t1);
    fl.pending_pages.jv_push_back(t0, vec![p[2], p[3]]);
    fl.pending_pages.jv_push_back(t1, vec![p[4]]);
    let v = fl.pages();
    assert!(v.len() == 5, "one entry per free or pending page, nothing else");
    let mut i = 0;
    while i + 1 < 5 {
        assert!(v[i] < v[i + 1], "pages() is strictly ascending");
        i += 1;
    }
    let mut i = 0;
    while i < 5 {
        let mut has = false;
        let mut j = 0;
        while j < 5 {
            if v[j] == p[i] {
                has = true;
            }
            j += 1;
        }
        assert!(has, "every free and every pending page is listed");
        i += 1;
    }
    assert!(fl.size() == 40 + 8 * 5, "size() = page header + 8 bytes per id");
    kani::cover!(p[4] < p[0] && p[0] < p[2], "pending pages interleave with free pages");
    std::mem::forget(v);
    std::mem::forget(fl);
}

// ---- C10-Ob4: init() puts every id of the persisted list back into the free set
// @ob props=C10 tier=quick cap=120 fns=Freelist::init bound="<=4 ascending ids (any u64 >= 2)" unwind=10
#[kani::proof]
#[kani::unwind(10)]
fn fl_init_reload() {
    let ids: [u64; 4] = kani::any();
    let n: usize = kani::any();
    kani::assume(n <= 4);
    let mut i = 0;
    while i + 1 < 4 {
        kani::assume(ids[i] < ids[i + 1]);
        i += 1;
    }
    kani::assume(ids[0] >= 2);
    let mut fl = Freelist::new();
    fl.init(&ids[..n]);
    assert!(fl.free_pages.len() == n);
    let mut i = 0;
    while i < 4 {
        assert!(fl.free_pages.contains(&ids[i]) == (i < n), "every persisted id is free after init, nothing else");
        i += 1;
    }
    assert!(fl.pending_pages.len() == 0);
    kani::cover!(n == 4);
    std::mem::forget(fl);
}

pub(crate) fn mk_meta(pagesize: u64, num_pages: u64, tx_id: u64) -> Meta {
    Meta {
        meta_page: 0,
        magic: 0x00AB_CDEF,
        version: 1,
        pagesize,
        root: crate::bucket::BucketMeta { root_page: 3, next_int: 0 },
        num_pages,
        freelist_page: 2,
        tx_id,
        hash: 0,
    }
}

// ---- C05-Ob2 / C10-Ob3 / C16-Ob2: TxFreelist::allocate: ceil division for every (bytes, pagesize),
//      free set first, else high-water mark which advances by exactly the count; header fields set;
//      dirty-page map records (id -> bytes)
// @ob props=C05,C10,C16 tier=quick cap=200 fns=TxFreelist::allocate,Freelist::allocate bound="pagesize any u64 in [64,2^40], bytes in [40,512] (one model arena block), <=4 pages per run, free subset of 2..=9, high-water mark any in [10,2^40)" unwind=10
#[kani::proof]
#[kani::unwind(10)]
fn txfl_allocate_step() {
    let pagesize: u64 = kani::any();
    kani::assume(pagesize >= 64 && pagesize <= 1 << 40);
    let hw: u64 = kani::any();
    kani::assume(hw >= 10 && hw < 1 << 40);
    let mask: u8 = kani::any();
    let fl = fl_from_mask(mask);
    let mut tf = TxFreelist::new(mk_meta(pagesize, hw, 7), fl);
    let bytes: u64 = kani::any();
    kani::assume(bytes >= 40 && bytes <= 512);
    // reference page count
    let np = (bytes + pagesize - 1) / pagesize;
    kani::assume(np <= 4);
    let page = tf.allocate(bytes).unwrap();
    let id = page.id;
    let ov = page.overflow;
    assert!(ov + 1 == np, "overflow = ceil(bytes / pagesize) - 1");
    let expect = first_run(mask, np);
    match expect {
        Some(p) => {
            assert!(id == p, "a fitting free run is used before the file is extended");
            assert!(tf.meta.num_pages == hw, "high-water mark unchanged when a free run is used");
            let run: u8 = (((1u16 << np) - 1) as u8) << (p - 2);
            assert!(free_mask(&tf.inner) == mask & !run);
        }
        None => {
            assert!(id == hw, "otherwise the run starts at the high-water mark");
            assert!(tf.meta.num_pages == hw + np, "which advances by exactly the page count");
            assert!(free_mask(&tf.inner) == mask);
        }
    }
    assert!(id >= 2);
    assert!(tf.pages.len() == 1);
    let (ptr, sz) = *tf.pages.get(&id).unwrap();
    assert!(sz as u64 == bytes, "dirty map records the byte length of the run");
    assert!(ptr.as_ptr() as usize == page as *const Page as usize);
    assert!((ptr.as_ptr() as usize) % 8 == 0, "arena memory is 8-aligned");
    kani::cover!(expect.is_some() && np == 2);
    kani::cover!(expect.is_none() && np == 3 && mask != 0);
    kani::cover!(bytes % pagesize == 0 && np == 2);
    std::mem::forget(tf);
}

// ---- C05-Ob2: two successive allocations never overlap
// @ob props=C05,C02 tier=quick cap=200 fns=TxFreelist::allocate,Freelist::allocate bound="pagesize 256, two runs of <=3 pages, free subset of 2..=9" unwind=10
#[kani::proof]
#[kani::unwind(10)]
fn txfl_allocate_twice_disjoint() {
    let pagesize: u64 = 256;
    let hw: u64 = kani::any();
    kani::assume(hw >= 10 && hw < 1 << 40);
    let mask: u8 = kani::any();
    let mut tf = TxFreelist::new(mk_meta(pagesize, hw, 7), fl_from_mask(mask));
    let b1: u64 = kani::any();
    let b2: u64 = kani::any();
    kani::assume(b1 >= 40 && b1 <= 512 && b2 >= 40 && b2 <= 512);
    let (id1, n1) = {
        let p = tf.allocate(b1).unwrap();
        (p.id, p.overflow + 1)
    };
    let (id2, n2) = {
        let p = tf.allocate(b2).unwrap();
        (p.id, p.overflow + 1)
    };
    assert!(id1 + n1 <= id2 || id2 + n2 <= id1, "two allocations in one transaction never overlap");
    assert!(id1 + n1 <= tf.meta.num_pages && id2 + n2 <= tf.meta.num_pages, "both lie below the new high-water mark");
    assert!(tf.pages.len() == 2);
    kani::cover!(id1 < 10 && id2 >= hw);
    kani::cover!(id1 < 10 && id2 < 10 && n1 == 2 && n2 == 2);
    std::mem::forget(tf);
}

// ---- C05-Ob3: TxFreelist::free(id, n) makes exactly the run pending under this tx's id
// (run start and length concrete per call: a symbolic range start makes CBMC unwind the
//  range loop to the bound with the whole Vec-growth body each time; measured 83 k steps / 40 s for n = 1)
fn txfl_free_run_at(id: u64, n: u64, txid: u64) {
    let mut tf = TxFreelist::new(mk_meta(256, 20, txid), Freelist::new());
    tf.free(id, n);
    assert!(tf.inner.free_pages.len() == 0, "freeing never makes a page allocatable in the same transaction");
    assert!(tf.inner.pending_pages.len() == 1);
    let v = tf.inner.pending_pages.get(&txid).unwrap();
    assert!(v.len() as u64 == n, "exactly n pages become pending");
    assert!(v[0] == id);
    if n >= 2 {
        assert!(v[1] == id + 1);
    }
    if n >= 3 {
        assert!(v[2] == id + 2);
    }
    assert!(tf.meta.num_pages == 20);
    std::mem::forget(tf);
}

// @ob props=C05 tier=quick cap=200 fns=TxFreelist::free,Freelist::free bound="concrete runs (5,1), (2,3), (2^40,2) under concrete tx ids 7, 0, u64::MAX (a symbolic tx id makes the pending Vec symbolic: OOM)" unwind=5
#[kani::proof]
#[kani::unwind(5)]
fn txfl_free_run() {
    txfl_free_run_at(5, 1, 7);
    txfl_free_run_at(2, 3, 0);
    txfl_free_run_at(1 << 40, 2, u64::MAX);
}

// ---- accessors for harnesses in other modules (Freelist's fields are private to this module)
pub(crate) fn is_free(fl: &Freelist, p: u64) -> bool {
    fl.free_pages.contains(&p)
}
pub(crate) fn n_free(fl: &Freelist) -> usize {
    fl.free_pages.len()
}
pub(crate) fn n_pending_lists(fl: &Freelist) -> usize {
    fl.pending_pages.len()
}
pub(crate) fn pending_of(fl: &Freelist, tx: u64) -> Option<&Vec<u64>> {
    fl.pending_pages.get(&tx)
}
pub(crate) fn push_free(fl: &mut Freelist, p: u64) {
    fl.free_pages.jv_push_back(p);
}
pub(crate) fn push_pending(fl: &mut Freelist, tx: u64, pages: Vec<u64>) {
    fl.pending_pages.jv_push_back(tx, pages);
}

// ---- call-site recorder: stands in for Freelist::release in harnesses that decide *with which bound*
//      a caller releases (the effect of release itself is decided by fl_release_step)
pub(crate) static mut RELEASE_ARGS: [u64; 4] = [0; 4];
pub(crate) static mut RELEASE_CALLS: usize = 0;
pub(crate) fn release_recorder(_fl: &mut Freelist, tx_id: u64) {
    unsafe {
        assert!(RELEASE_CALLS < 4);
        RELEASE_ARGS[RELEASE_CALLS] = tx_id;
        RELEASE_CALLS += 1;
    }
}
pub(crate) fn release_calls() -> usize {
    unsafe { RELEASE_CALLS }
}
pub(crate) fn release_arg(i: usize) -> u64 {
    unsafe { RELEASE_ARGS[i] }
}
