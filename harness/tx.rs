// Harnesses mounted as child module `jv` of src/tx.rs.
// Obligations: C03-Ob2/Ob3 (begin / drop steps over the shared reader list and free list),
// C06-Ob1/Ob2 (read-only guards, abandoned writer leaves no trace), C10-Ob2 (release at writer begin),
// C02 / C11 / C05 / C16 (the commit I/O sequence: TxInner::write_data over the op-logging disk model).
//
// States are built directly (typed stores into the model disk, shared structures assigned), never through
// init -> commit -> reopen chains.  Header contents are concrete (so the header checksums fold to
// constants during symbolic execution); transaction ids in the reader list and in the pending map,
// fault positions and crash cuts are symbolic.
use super::*;
use crate::db::jv::{lay_empty_leaf, lay_freelist, lay_meta, mk_dbinner, PS};
use crate::db::DBFlags;
use crate::freelist::jv as fj;
use crate::freelist::Freelist;
use jv_env::Arc;

/// current committed id in every harness below
const C: u64 = 7;

fn flags(strict: bool) -> DBFlags {
    DBFlags { strict_mode: strict, mmap_populate: false, direct_writes: false }
}

/// 12-page file: headers (slot 0: tx 6, slot 1: tx 7 = newest), free-list page 2 (given ids), root leaf 3
fn mk_db(free_ids: &[u64], strict: bool) -> &'static DB {
    lay_meta(0, 0, C - 1, 3, 0, 12, 2, PS);
    lay_meta(1, 1, C, 3, 0, 12, 2, PS);
    lay_freelist(2, free_ids);
    lay_empty_leaf(3);
    // leaked: a Tx borrows the DB, and nothing is dropped at the end of a harness
    Box::leak(Box::new(DB { inner: Arc::new(mk_dbinner(12, flags(strict))) }))
}

/// shared free list: free {4}, pending t[0] -> [9], t[1] -> [6]
fn set_shared_freelist(db: &DB, t: &[u64; 2]) {
    let mut fl = Freelist::new();
    fj::push_free(&mut fl, 4);
    fj::push_pending(&mut fl, t[0], vec![9]);
    fj::push_pending(&mut fl, t[1], vec![6]);
    let mut g = db.inner.freelist.lock().unwrap();
    *g = fl;
}

fn shared_unchanged(db: &DB, t: &[u64; 2]) {
    let fl = db.inner.freelist.peek();
    assert!(fj::n_free(fl) == 1 && fj::is_free(fl, 4), "shared free set untouched");
    assert!(fj::n_pending_lists(fl) == 2, "shared pending lists untouched");
    let p0 = fj::pending_of(fl, t[0]).unwrap();
    let p1 = fj::pending_of(fl, t[1]).unwrap();
    assert!(p0.len() == 1 && p0[0] == 9 && p1.len() == 1 && p1[0] == 6);
}

fn any_pending_ids() -> [u64; 2] {
    let t: [u64; 2] = kani::any();
    kani::assume(t[0] < t[1] && t[1] <= C);
    t
}

/// tx-local free list after begin: list i released iff t[i] < bound
fn local_released_below(tx: &Tx, t: &[u64; 2], bound: u64) {
    let inner = tx.inner.borrow();
    let tf = inner.freelist.borrow();
    let fl = &tf.inner;
    assert!(fj::is_free(fl, 4));
    let rel = [t[0] < bound, t[1] < bound];
    assert!(fj::is_free(fl, 9) == rel[0], "list 0 released iff older than every reader");
    assert!(fj::is_free(fl, 6) == rel[1], "list 1 released iff older than every reader");
    assert!(fj::pending_of(fl, t[0]).is_some() == !rel[0]);
    assert!(fj::pending_of(fl, t[1]).is_some() == !rel[1]);
    assert!(fj::n_free(fl) == 1 + rel[0] as usize + rel[1] as usize, "nothing else became free");
}

// ---- C03-Ob2 / C10-Ob2: writer begin releases with bound = oldest open reader, or committed + 1 when none is open.
//      Decided at the call site: Freelist::release is replaced by a recorder (its effect for every bound is
//      fl_release_step); everything else in Tx::new is the real code.
// @ob props=C03,C10,C06 tier=quick cap=400 fns=Tx::new,DBInner::meta,TxFreelist::new,InnerBucket::from_meta,Pages::page,Pages::new bound="committed id 7; reader list of 2 sorted ids <= 7 (any, duplicates allowed)" unwind=5 native=no
#[kani::proof]
#[kani::unwind(5)]
#[kani::stub(crate::freelist::Freelist::release, crate::freelist::jv::release_recorder)]
fn tx_begin_writer_release_bound() {
    let db = mk_db(&[], false);
    let r: [u64; 2] = kani::any();
    kani::assume(r[0] <= r[1] && r[1] <= C);
    {
        let mut g = db.inner.open_ro_txs.lock().unwrap();
        *g = Vec::with_capacity(4);
        g.push(r[0]);
        g.push(r[1]);
    }
    let res = db.tx(true);
    assert!(res.is_ok());
    if let Ok(tx) = res {
        assert!(tx.writable());
        assert!(tx.inner.borrow().meta.tx_id == C + 1, "the writer works on id committed + 1");
        assert!(fj::release_calls() == 1 && fj::release_arg(0) == r[0], "pages are released only below the oldest open reader");
        assert!(tx.inner.borrow().freelist.borrow().meta.tx_id == C + 1, "pages freed by this writer are tagged with its id");
        assert!(tx.inner.borrow().freelist.borrow().meta.num_pages == 12);
        let ro = db.inner.open_ro_txs.peek();
        assert!(ro.len() == 2 && ro[0] == r[0] && ro[1] == r[1], "reader list untouched by a writer");
        assert!(db.inner.file.is_held(), "the writer holds the file mutex");
        assert!(!db.inner.freelist.is_held() && !db.inner.open_ro_txs.is_held() && !db.inner.data.is_held());
        assert!(db.inner.mmap_lock.readers() == 0);
        assert!(jv_env::disk().nops == 0, "begin writes nothing");
        kani::cover!(r[0] < r[1]);
        kani::cover!(r[0] == C);
        std::mem::forget(tx);
    }
}

// @ob props=C03,C10 tier=quick cap=400 fns=Tx::new,DBInner::meta bound="committed id 7; no reader open" unwind=5 native=no
#[kani::proof]
#[kani::unwind(5)]
#[kani::stub(crate::freelist::Freelist::release, crate::freelist::jv::release_recorder)]
fn tx_begin_writer_no_reader() {
    let db = mk_db(&[], false);
    let res = db.tx(true);
    assert!(res.is_ok());
    if let Ok(tx) = res {
        assert!(tx.inner.borrow().meta.tx_id == C + 1);
        assert!(fj::release_calls() == 1 && fj::release_arg(0) == C + 1, "with no reader everything committed is released");
        assert!(db.inner.open_ro_txs.peek().len() == 0);
        assert!(db.inner.file.is_held());
        std::mem::forget(tx);
    }
}

// ---- integration of the two halves (real release inside the real begin), thorough tier
// @ob props=C03,C10 tier=thorough cap=900 mem=30 fns=Tx::new,DBInner::meta,Freelist::release bound="committed id 7; 2 pending lists (1 page each) with any ascending ids <= 7; one reader with any id <= 7; free set {4}" unwind=5
#[kani::proof]
#[kani::unwind(5)]
fn tx_begin_writer_integrated() {
    let db = mk_db(&[], false);
    let t = any_pending_ids();
    set_shared_freelist(db, &t);
    let r0: u64 = kani::any();
    kani::assume(r0 <= C);
    {
        let mut g = db.inner.open_ro_txs.lock().unwrap();
        *g = Vec::with_capacity(2);
        g.push(r0);
    }
    let res = db.tx(true);
    assert!(res.is_ok());
    if let Ok(tx) = res {
        local_released_below(&tx, &t, r0);
        shared_unchanged(db, &t);
        kani::cover!(t[0] < r0 && t[1] >= r0, "a reader pins the younger list");
        std::mem::forget(tx);
    }
}

// ---- C03-Ob3: reader begin registers the committed id, changes nothing else; drop deregisters exactly one occurrence
// @ob props=C03,C06 tier=quick cap=600 fns=Tx::new,DBInner::meta,TxInner::drop bound="committed id 7; reader list of 2 sorted ids <= 7 (any, duplicates allowed)" unwind=5
#[kani::proof]
#[kani::unwind(5)]
#[kani::stub(crate::freelist::Freelist::release, crate::freelist::jv::release_recorder)]
fn tx_begin_reader_and_drop() {
    let db = mk_db(&[], false);
    let r: [u64; 2] = kani::any();
    kani::assume(r[0] <= r[1] && r[1] <= C);
    {
        let mut g = db.inner.open_ro_txs.lock().unwrap();
        *g = Vec::with_capacity(4);
        g.push(r[0]);
        g.push(r[1]);
    }
    let res = db.tx(false);
    assert!(res.is_ok());
    if let Ok(tx) = res {
        assert!(!tx.writable());
        assert!(tx.inner.borrow().meta.tx_id == C, "a reader sees the newest committed header");
        assert!(tx.inner.borrow().meta.root.root_page == 3);
        {
            let ro = db.inner.open_ro_txs.peek();
            assert!(ro.len() == 3 && ro[0] == r[0] && ro[1] == r[1] && ro[2] == C, "registered, list stays sorted");
        }
        assert!(fj::release_calls() == 0, "a reader releases nothing");
        assert!(!db.inner.file.is_held(), "a reader does not take the writer lock");
        assert!(db.inner.mmap_lock.readers() == 1, "a reader holds the map read lock");
        assert!(jv_env::disk().nops == 0);
        drop(tx);
        let ro = db.inner.open_ro_txs.peek();
        assert!(ro.len() == 2 && ro[0] == r[0] && ro[1] == r[1], "drop removes exactly its own registration");
        assert!(db.inner.mmap_lock.readers() == 0);
        kani::cover!(r[1] == C, "an older reader with the same id stays registered");
        kani::cover!(r[0] < r[1] && r[1] < C);
    }
}

// ---- C06-Ob2: a writer that frees and allocates and is then dropped leaves shared state and file untouched
// (two harnesses over the same body: one frees a run and takes a two-page run, the other takes a single page;
//  as one harness the query took 370..720 s, too close to the quick budget)
fn abandoned_writer(frees: bool, big: bool) {
    let db = mk_db(&[], false);
    let t = [3u64, 5];
    set_shared_freelist(db, &t);
    let r0: u64 = kani::any();
    kani::assume(r0 <= C);
    {
        let mut g = db.inner.open_ro_txs.lock().unwrap();
        g.push(r0);
    }
    let res = db.tx(true);
    assert!(res.is_ok());
    if let Ok(tx) = res {
        {
            let inner = tx.inner.borrow();
            let mut tf = inner.freelist.borrow_mut();
            if frees {
                tf.free(3, 1);
            }
            let a = tf.allocate(if big { 300 } else { 40 });
            assert!(a.is_ok());
            std::mem::forget(a);
        }
        drop(tx);
        shared_unchanged(db, &t);
        let ro = db.inner.open_ro_txs.peek();
        assert!(ro.len() == 1 && ro[0] == r0, "reader list untouched");
        assert!(!db.inner.file.is_held(), "the writer lock is free again");
        assert!(jv_env::disk().nops == 0, "no byte of the file was written");
        let m = db.inner.meta();
        assert!(m.is_ok());
        if let Ok(m) = m {
            assert!(m.tx_id == C && m.num_pages == 12 && m.root.root_page == 3 && m.freelist_page == 2, "committed header unchanged");
        }
    }
}
// @ob props=C06 tier=quick cap=750 mem=8 fns=Tx::new,TxInner::drop,TxFreelist::free,TxFreelist::allocate bound="committed id 7; writer frees run (3,1) and allocates 300 bytes (2 pages); 2 pending lists any ids <= 7; one reader" unwind=5
#[kani::proof]
#[kani::unwind(5)]
fn tx_abandoned_writer_no_trace() {
    abandoned_writer(true, true);
}
// @ob props=C06 tier=quick cap=600 mem=8 fns=Tx::new,TxInner::drop,TxFreelist::allocate bound="committed id 7; writer allocates 40 bytes (one page); 2 pending lists any ids <= 7; one reader" unwind=5
#[kani::proof]
#[kani::unwind(5)]
fn tx_abandoned_writer_single_page_no_trace() {
    abandoned_writer(false, false);
}

// ---- C06-Ob1: every mutating entry point of a read-only transaction fails with ReadOnlyTx and changes nothing
// @ob props=C06 tier=quick cap=600 fns=Tx::create_bucket,Tx::get_or_create_bucket,Tx::delete_bucket,Tx::commit,Tx::writable bound="read-only transaction on the 12-page image; bucket names of 1 symbolic byte" unwind=5
#[kani::proof]
#[kani::unwind(5)]
fn tx_readonly_guards() {
    let db = mk_db(&[], false);
    let res = db.tx(false);
    assert!(res.is_ok());
    if let Ok(tx) = res {
        let name: [u8; 1] = kani::any();
        let r1 = tx.create_bucket(name);
        assert!(matches!(r1, Err(Error::ReadOnlyTx)));
        std::mem::forget(r1);
        let r2 = tx.get_or_create_bucket(name);
        assert!(matches!(r2, Err(Error::ReadOnlyTx)));
        std::mem::forget(r2);
        let r3 = tx.delete_bucket(name);
        assert!(matches!(r3, Err(Error::ReadOnlyTx)));
        std::mem::forget(r3);
        {
            let inner = tx.inner.borrow();
            assert!(crate::bucket::jv::is_clean(&inner.root.borrow()), "the root bucket was not touched");
            assert!(inner.freelist.borrow().pages.len() == 0);
        }
        let r4 = tx.commit();
        assert!(matches!(r4, Err(Error::ReadOnlyTx)));
        std::mem::forget(r4);
        assert!(jv_env::disk().nops == 0, "no byte of the file was written");
        assert!(db.inner.open_ro_txs.peek().len() == 0, "commit consumed and deregistered the reader");
    }
}




// =====================================================================================================
// The commit I/O sequence: TxInner::write_data, reached through the real Tx::commit on a transaction
// whose root bucket is untouched (rebalance / spill return at once) and whose dirty page is injected
// through the real TxFreelist::allocate, as the repository's own unit tests do.
//
// Pre-state (12 pages of 256 bytes): header slot 1 newest (tx 7), slot 0 older (tx 6); free-list page 2
// lists {4, 5}; root leaf 3; pages 6..11 in use; shared free list: free {4, 5}, nothing pending.
// The writer (tx 8) dirties one 40-byte page (gets page 4) and commits.  Expected plan:
//   write page 4 (40 bytes @1024), write the new free-list page 5 (56 bytes @1280), [sync], write header
//   slot 0 (256 bytes @0), flush, sync; shared free list := {free: {}, pending: {8: [2]}}.
// =====================================================================================================

fn commit_db(strict: bool) -> &'static DB {
    let db = mk_db(&[4, 5], strict);
    let mut fl = Freelist::new();
    fj::push_free(&mut fl, 4);
    fj::push_free(&mut fl, 5);
    {
        let mut g = db.inner.freelist.lock().unwrap();
        *g = fl;
    }
    // pages 6..11 carry a recognisable pattern so that a stray write is visible
    let d = jv_env::disk();
    let mut w = (6 * PS / 8) as usize;
    while w < (12 * PS / 8) as usize {
        d.words[w] = 0x5a5a_0000_0000_0000 | w as u64;
        w += 1;
    }
    db
}

/// begin the writer and dirty one leaf page; returns the transaction
fn begin_and_dirty(db: &'static DB) -> Option<Tx<'static>> {
    match db.tx(true) {
        Ok(tx) => {
            {
                let inner = tx.inner.borrow();
                let mut tf = inner.freelist.borrow_mut();
                match tf.allocate(40) {
                    Ok(p) => {
                        p.page_type = Page::TYPE_LEAF;
                        p.count = 0;
                    }
                    Err(e) => std::mem::forget(e),
                }
            }
            Some(tx)
        }
        Err(e) => {
            std::mem::forget(e);
            None
        }
    }
}

fn untouched_pages_ok() {
    let d = jv_env::disk();
    let mut w = (6 * PS / 8) as usize;
    while w < (12 * PS / 8) as usize {
        assert!(d.words[w] == 0x5a5a_0000_0000_0000 | w as u64, "copy-on-write: pages in use are never written");
        w += 1;
    }
}

// ---- C02-Ob1 / C05 / C10-Ob4: the write plan of a commit
// @ob props=C02,C10 tier=quick cap=800 mem=10 fns=Tx::commit,TxInner::write_data,TxFreelist::free,TxFreelist::allocate,Freelist::pages,Freelist::size,Page::freelist_mut,Page::meta_mut,Meta::hash_self,DBInner::meta bound="12-page file, one dirty 40-byte page, free set {4,5}, no reader, no growth, strict mode off" unwind=260
#[kani::proof]
#[kani::unwind(260)]
fn tx_commit_write_plan() {
    let db = commit_db(false);
    let tx = match begin_and_dirty(db) {
        Some(t) => t,
        None => return,
    };
    let d = jv_env::disk();
    assert!(d.nops == 0);
    let r = tx.commit();
    assert!(r.is_ok(), "a commit without I/O faults succeeds");
    std::mem::forget(r);
    // --- the op log
    assert!(!d.oob);
    assert!(d.nwrites() == 3, "exactly three writes: dirty page, free-list page, header");
    let mut wi = [0usize; 3];
    let mut n = 0usize;
    let mut i = 0usize;
    while i < jv_env::fs::MAXOPS {
        if i < d.nops && d.ops[i].kind == jv_env::fs::OP_WRITE {
            wi[n] = i;
            n += 1;
        }
        i += 1;
    }
    let (a, b, h) = (d.ops[wi[0]], d.ops[wi[1]], d.ops[wi[2]]);
    assert!(a.off == 4 * PS && a.len == 40, "dirty page 4 written at id * pagesize, once");
    assert!(b.off == 5 * PS && b.len == 56, "new free-list page 5 (sized for free + pending before it takes page 5 itself)");
    assert!(h.off == 0 && h.len == PS, "the header goes to the slot that does not hold the current header");
    // --- syncs: data pages are durable before the header is written; the header write is followed by a completed sync
    assert!(h.epoch > a.epoch && h.epoch > b.epoch, "a completed sync separates the data pages from the header that refers to them");
    let last = d.ops[d.nops - 1];
    assert!(last.kind == jv_env::fs::OP_SYNC, "commit ends with a completed sync");
    assert!(d.epoch >= 1);
    // --- contents
    untouched_pages_ok();
    assert!(d.byte(5 * 256 + 8) == Page::TYPE_FREELIST && d.word(5 * 256 + 16) == 1 && d.word(5 * 256 + 32) == 2, "free-list page lists free + pending = page 2");
    assert!(d.byte(4 * 256 + 8) == Page::TYPE_LEAF && d.word(4 * 256) == 4);
    let m = db.inner.meta();
    assert!(m.is_ok());
    if let Ok(m) = m {
        assert!(m.tx_id == C + 1 && m.meta_page == 0 && m.root.root_page == 3 && m.num_pages == 12 && m.freelist_page == 5 && m.pagesize == PS,
                "the new header is valid, newest, and carries the transaction's id / root / high-water mark / free-list page");
    }
    // --- slot 1 (the previous header) is untouched
    assert!(d.word(256 + 32 + 56) == C, "the previous header stays in place");
    // --- shared free list published
    let fl = db.inner.freelist.peek();
    assert!(fj::n_free(fl) == 0, "page 4 and 5 were taken from the free set");
    let p = fj::pending_of(fl, C + 1);
    assert!(p.is_some());
    if let Some(p) = p {
        assert!(p.len() == 1 && p[0] == 2, "the old free-list page is pending under the committing transaction");
    }
    assert!(!db.inner.file.is_held(), "the writer lock is released");
}

static mut PRE: [u64; 512] = [0; 512];
static mut IMG: [u64; 512] = [0; 512];

fn snapshot_pre() {
    let d = jv_env::disk();
    let mut w = 0;
    while w < 384 {
        unsafe { PRE[w] = d.words[w] };
        w += 1;
    }
}

/// a DBInner whose map is the synthesised crash image (what a reopen after the crash would map)
fn reopen_image() -> crate::db::DBInner {
    let file = jv_env::File::raw();
    let map = memmap2::Mmap::from_raw(unsafe { std::ptr::addr_of!(IMG) as *const u8 }, 12 * PS as usize);
    crate::db::DBInner {
        data: jv_env::Mutex::new(Arc::new(map)),
        mmap_lock: jv_env::RwLock::new(()),
        freelist: jv_env::Mutex::new(Freelist::new()),
        file: jv_env::Mutex::new(file),
        open_ro_txs: jv_env::Mutex::new(Vec::new()),
        flags: flags(false),
        pagesize: PS,
    }
}

/// IMG := PRE, then for every logged write i with apply(i): the bytes of that write (word granular,
/// all writes of a commit are word multiples) taken from the final disk, restricted to `hdr_words`
/// for the header write when given (8-byte tearing)
fn build_image(apply: &[bool; jv_env::fs::MAXOPS], hdr_op: usize, hdr_words: u32) {
    let d = jv_env::disk();
    let mut w = 0;
    while w < 384 {
        unsafe { IMG[w] = PRE[w] };
        w += 1;
    }
    let mut i = 0;
    while i < jv_env::fs::MAXOPS {
        if i < d.nops && d.ops[i].kind == jv_env::fs::OP_WRITE && apply[i] {
            let first = (d.ops[i].off / 8) as usize;
            let nw = (d.ops[i].len / 8) as usize;
            let mut j = 0;
            while j < nw {
                let torn_away = i == hdr_op && j < 32 && (hdr_words >> j) & 1 == 0;
                if !torn_away {
                    unsafe { IMG[first + j] = d.words[first + j] };
                }
                j += 1;
            }
        }
        i += 1;
    }
}

fn index_of_header_write() -> usize {
    let d = jv_env::disk();
    let mut h = jv_env::fs::MAXOPS;
    let mut i = 0;
    while i < jv_env::fs::MAXOPS {
        if i < d.nops && d.ops[i].kind == jv_env::fs::OP_WRITE && d.ops[i].off < 2 * PS {
            h = i;
        }
        i += 1;
    }
    h
}

/// the state a reopen of IMG shows must be exactly the previous commit (tx 7) or exactly the new one (tx 8),
/// and in the latter case every page the new header refers to must hold what the commit wrote
fn image_is_old_or_new() -> bool {
    let d = jv_env::disk();
    let re = reopen_image();
    let m = re.meta();
    assert!(m.is_ok(), "reopening a crash image never fails");
    let mut is_new = false;
    if let Ok(m) = m {
        if m.tx_id == C + 1 {
            is_new = true;
            assert!(m.meta_page == 0 && m.root.root_page == 3 && m.num_pages == 12 && m.freelist_page == 5);
            // the pages the new state consists of were written by this commit: they must be in the image
            let mut w = (4 * PS / 8) as usize;
            while w < (4 * PS / 8) as usize + 5 {
                assert!(unsafe { IMG[w] } == d.words[w], "new header visible => the dirty page it depends on is durable");
                w += 1;
            }
            let mut w = (5 * PS / 8) as usize;
            while w < (5 * PS / 8) as usize + 7 {
                assert!(unsafe { IMG[w] } == d.words[w], "new header visible => the new free-list page is durable");
                w += 1;
            }
        } else {
            assert!(m.tx_id == C && m.meta_page == 1 && m.root.root_page == 3 && m.num_pages == 12 && m.freelist_page == 2,
                    "otherwise exactly the previous commit is shown");
            // and what the previous state consists of is intact
            assert!(unsafe { IMG[(2 * PS / 8) as usize + 2] } == 2 && unsafe { IMG[(2 * PS / 8) as usize + 4] } == 4, "old free-list page intact");
        }
    }
    std::mem::forget(re);
    is_new
}

// ---- C02-Ob2: process kill = any prefix of the file operations of a commit
// @ob props=C02 tier=thorough cap=1200 mem=18 fns=Tx::commit,TxInner::write_data,DBInner::meta,Page::meta,Meta::valid bound="the commit of tx_commit_write_plan; crash after any prefix k of its logged file operations (k symbolic)" unwind=520
#[kani::proof]
#[kani::unwind(520)]
fn tx_commit_crash_prefix() {
    let db = commit_db(false);
    snapshot_pre();
    let tx = match begin_and_dirty(db) {
        Some(t) => t,
        None => return,
    };
    let r = tx.commit();
    assert!(r.is_ok());
    std::mem::forget(r);
    let d = jv_env::disk();
    let k: usize = kani::any();
    kani::assume(k <= d.nops);
    let mut apply = [false; jv_env::fs::MAXOPS];
    let mut i = 0;
    while i < jv_env::fs::MAXOPS {
        apply[i] = i < k;
        i += 1;
    }
    let h = index_of_header_write();
    assert!(h < jv_env::fs::MAXOPS);
    build_image(&apply, h, u32::MAX);
    let is_new = image_is_old_or_new();
    assert!(is_new == (k > h), "the commit becomes visible exactly when the header write has happened");
    kani::cover!(k == 0);
    kani::cover!(k == h);
    kani::cover!(k == d.nops);
    untouched_pages_ok();
}

// ---- C02-Ob3: power loss = operations issued after the last completed sync persist in any subset; data
//      writes atomically (each lies inside one 512-byte sector), the header write torn at 8-byte words
// @ob props=C02 tier=quick cap=850 mem=18 fns=Tx::commit,TxInner::write_data,DBInner::meta,Page::meta,Meta::valid,Meta::hash_self bound="the commit of tx_commit_write_plan; power loss after any prefix k; every subset of the unsynced writes; header torn at any 8-byte word mask over its 13 record words" unwind=520
#[kani::proof]
#[kani::unwind(520)]
fn tx_commit_power_loss() {
    let db = commit_db(false);
    snapshot_pre();
    let tx = match begin_and_dirty(db) {
        Some(t) => t,
        None => return,
    };
    let r = tx.commit();
    assert!(r.is_ok());
    std::mem::forget(r);
    let d = jv_env::disk();
    let k: usize = kani::any();
    kani::assume(k <= d.nops);
    // number of syncs completed among the first k operations
    let mut synced: u32 = 0;
    let mut i = 0;
    while i < jv_env::fs::MAXOPS {
        if i < k && i < d.nops && d.ops[i].kind == jv_env::fs::OP_SYNC {
            synced += 1;
        }
        i += 1;
    }
    let keep: [bool; jv_env::fs::MAXOPS] = kani::any();
    let mut apply = [false; jv_env::fs::MAXOPS];
    let mut i = 0;
    while i < jv_env::fs::MAXOPS {
        // issued before the crash, and either made durable by a later completed sync or kept by chance
        apply[i] = i < k && i < d.nops && (d.ops[i].epoch < synced || keep[i]);
        i += 1;
    }
    let h = index_of_header_write();
    let mask: u32 = kani::any();
    // if the header write was made durable by a sync it is complete; otherwise any word subset
    let hdr_durable = h < k && d.ops[h].epoch < synced;
    let hdr_words = if hdr_durable { u32::MAX } else { mask | 0xffff_e000 };
    build_image(&apply, h, hdr_words);
    let is_new = image_is_old_or_new();
    if k == d.nops {
        assert!(is_new, "once commit has returned success its effects survive a power loss");
    }
    kani::cover!(is_new && k < d.nops);
    kani::cover!(!is_new && k > h);
    kani::cover!(!is_new && apply[h] && !hdr_durable, "a torn header falls back to the previous commit");
}

// ---- C11: one I/O call of the commit fails (error, or a short write followed by an error).
// The failing call index is concrete per harness (a symbolic index forks the whole commit at every call and
// did not finish symbolic execution in 30 min); the harnesses together enumerate every fallible call of the
// commit: 0 metadata, 1 seek, 2 write(page 4), 3 seek, 4 write(free list), 5 flush, 6 sync, 7 seek,
// 8 write(header), 9 flush, 10 sync.
fn commit_with_fault(f: usize, short: usize) {
    let db = commit_db(false);
    snapshot_pre();
    let tx = match begin_and_dirty(db) {
        Some(t) => t,
        None => return,
    };
    let d = jv_env::disk();
    d.fail_at = f;
    d.short_len = short;
    let r = tx.commit();
    let failed = d.nfailed > 0;
    assert!(failed, "the fault plan names a call the commit really issues");
    assert!(matches!(r, Err(Error::Io(_))), "an I/O failure is reported as an error (and nothing panicked)");
    std::mem::forget(r);
    assert!(!db.inner.file.is_held(), "the writer lock is released either way");
    untouched_pages_ok();
    // slot 1 (previous header), old free-list page 2 and root page 3 are never written
    let mut w = (PS / 8) as usize;
    while w < (2 * PS / 8) as usize {
        assert!(d.words[w] == unsafe { PRE[w] }, "previous header untouched");
        w += 1;
    }
    assert!(d.word(2 * 256 + 16) == 2 && d.word(2 * 256 + 32) == 4 && d.word(2 * 256 + 40) == 5, "previous free-list page untouched");
    let m = db.inner.meta();
    assert!(m.is_ok(), "the file still has a valid header");
    let fl = db.inner.freelist.peek();
    kani::cover!(d.nwrites() == 0, "opt: the fault hit before anything was written");
    kani::cover!(d.nwrites() >= 1 && d.epoch == 0, "opt: the fault hit after a data write, before the first sync");
    kani::cover!(d.epoch >= 1, "opt: the fault hit after the data pages were synced");
    if let Ok(m) = m {
        kani::cover!(m.tx_id == C, "opt: the handle shows the pre-transaction state");
        kani::cover!(m.tx_id == C + 1, "opt: the handle shows the post-transaction state");
        // exactly the pre-transaction or exactly the post-transaction state
        assert!((m.tx_id == C && m.freelist_page == 2 && m.meta_page == 1) || (m.tx_id == C + 1 && m.freelist_page == 5 && m.meta_page == 0));
        if m.tx_id == C {
            assert!(fj::n_free(fl) == 2 && fj::is_free(fl, 4) && fj::is_free(fl, 5) && fj::n_pending_lists(fl) == 0,
                    "pre-transaction state on disk: the in-memory free list is the pre-transaction one");
        } else {
            // the new header reached the file although commit reported an error: the handle must not
            // go on offering the pages the new state lives in
            assert!(!fj::is_free(fl, 5) && !fj::is_free(fl, 4),
                    "JV-C11-STALE: the failed commit's header is in the file but the in-memory free list still offers its pages");
        }
    }
}

macro_rules! fault_harness {
    ($name:ident, $f:expr, $short:expr) => {
        #[kani::proof]
        #[kani::unwind(520)]
        fn $name() {
            commit_with_fault($f, $short);
        }
    };
}

// @ob props=C11 tier=thorough cap=1200 mem=12 fns=Tx::commit,TxInner::write_data bound="failing call 0: file.metadata()" unwind=520
fault_harness!(tx_commit_fault_00_metadata, 0, 0);
// @ob props=C11 tier=thorough cap=1200 mem=12 fns=Tx::commit,TxInner::write_data bound="failing call 1: seek to the first dirty page" unwind=520
fault_harness!(tx_commit_fault_01_seek, 1, 0);
// @ob props=C11 tier=thorough cap=1200 mem=12 fns=Tx::commit,TxInner::write_data,DBInner::meta bound="failing call 2: write of the first dirty page (error)" unwind=520
fault_harness!(tx_commit_fault_02_write, 2, 0);
// @ob props=C11 tier=thorough cap=1200 mem=12 fns=Tx::commit,TxInner::write_data,DBInner::meta bound="call 2 is a short write of 8 bytes, the next call fails" unwind=520
fault_harness!(tx_commit_fault_02_short, 2, 8);
// @ob props=C11 tier=thorough cap=1200 mem=12 fns=Tx::commit,TxInner::write_data bound="failing call 4: write of the free-list page" unwind=520
fault_harness!(tx_commit_fault_04_write, 4, 0);
// @ob props=C11 tier=thorough cap=1200 mem=12 fns=Tx::commit,TxInner::write_data bound="failing call 5: flush after the data pages" unwind=520
fault_harness!(tx_commit_fault_05_flush, 5, 0);
// @ob props=C11 tier=quick cap=700 mem=10 fns=Tx::commit,TxInner::write_data,DBInner::meta bound="failing call 6: sync after the data pages" unwind=520
fault_harness!(tx_commit_fault_06_sync, 6, 0);
// ---- the sync fault under a SMALL unwind bound. A change that swallows the failed sync makes write_data DROP the
// io::Error; the drop glue of std::io::Error is recursive (Custom -> Box<dyn Error> -> possibly an io::Error again) and
// Kani unrolls recursion up to the harness's unwind bound: the 520 of the other fault harnesses (page-sized copy
// loops, 384-word snapshot loops) does not finish on such a tree. Here copies run in 16-byte chunks and the helper
// loops are nested (<= 32 iterations each), so 40 is enough.
fn commit_with_sync_fault_small_bound() {
    let db = mk_db(&[4, 5], false);
    let mut fl = Freelist::new();
    fj::push_free(&mut fl, 4);
    fj::push_free(&mut fl, 5);
    {
        let mut g = db.inner.freelist.lock().unwrap();
        *g = fl;
    }
    let tx = match begin_and_dirty(db) {
        Some(t) => t,
        None => return,
    };
    let d = jv_env::disk();
    d.fail_at = 6;
    let r = tx.commit();
    assert!(d.nfailed > 0, "the fault plan names a call the commit really issues");
    assert!(matches!(r, Err(Error::Io(_))), "JV-C11-SWALLOWED: a failed sync is reported as an error");
    std::mem::forget(r);
    assert!(!db.inner.file.is_held(), "the writer lock is released either way");
    let m = db.inner.meta();
    assert!(m.is_ok());
    if let Ok(m) = m {
        assert!(m.tx_id == C && m.meta_page == 1, "the header page was not written after the failed sync");
    }
}
// @ob props=C11 tier=thorough cap=900 mem=12 fns=Tx::commit,TxInner::write_data,DBInner::meta bound="failing call 6: the sync after the data pages; unwind bound 40 (chunked copies)" unwind=40
#[kani::proof]
#[kani::stub(core::ptr::copy_nonoverlapping, crate::jv_top_stubs::copy_nonoverlapping_chunked)]
#[kani::unwind(40)]
fn tx_commit_fault_06_sync_small_bound() {
    commit_with_sync_fault_small_bound();
}
// @ob props=C11 tier=thorough cap=1200 mem=12 fns=Tx::commit,TxInner::write_data bound="failing call 7: seek to the header slot" unwind=520
fault_harness!(tx_commit_fault_07_seek, 7, 0);
// @ob props=C11 tier=thorough cap=1200 mem=12 fns=Tx::commit,TxInner::write_data,DBInner::meta bound="failing call 8: write of the header page (error, nothing written)" unwind=520
fault_harness!(tx_commit_fault_08_write, 8, 0);
// @ob props=C11 tier=quick cap=700 mem=10 fns=Tx::commit,TxInner::write_data,DBInner::meta,Meta::valid bound="call 8 (header page) is a short write of 8 bytes, the next call fails: torn header" unwind=520
fault_harness!(tx_commit_fault_08_short, 8, 8);
// @ob props=C11 tier=quick cap=750 mem=10 fns=Tx::commit,TxInner::write_data,DBInner::meta,Meta::valid bound="call 8 (header page) is a short write of 128 bytes -- the complete header record with its checksum -- and the next call fails" unwind=520
fault_harness!(tx_commit_fault_08_short_past_header, 8, 128);
// @ob props=C11 tier=thorough cap=1200 mem=12 fns=Tx::commit,TxInner::write_data,DBInner::meta bound="failing call 9: flush after the header write" unwind=520
fault_harness!(tx_commit_fault_09_flush, 9, 0);
// @ob props=C11 tier=quick cap=700 mem=10 fns=Tx::commit,TxInner::write_data,DBInner::meta bound="failing call 10: the final sync (header already handed to the OS)" unwind=520
fault_harness!(tx_commit_fault_10_sync, 10, 0);

// ---- C16-Ob3 / C02: file growth: when the commit needs more pages than the file has, the file is extended
//      before anything is written, in whole MIN_ALLOC_SIZE steps, to at least the required size
fn growth_case(hw: u64) {
    // like commit_db, but the header says the high-water mark is `hw` pages although the file holds 12:
    // every allocation beyond the free set extends the file
    lay_meta(0, 0, C - 1, 3, 0, hw, 2, PS);
    lay_meta(1, 1, C, 3, 0, hw, 2, PS);
    lay_freelist(2, &[]);
    lay_empty_leaf(3);
    let db: &'static DB = Box::leak(Box::new(DB { inner: Arc::new(mk_dbinner(12, flags(false))) }));
    let tx = match begin_and_dirty(db) {
        Some(t) => t,
        None => return,
    };
    let d = jv_env::disk();
    let r = tx.commit();
    assert!(r.is_ok());
    std::mem::forget(r);
    // two pages were allocated at the high-water mark: the dirty page and the new free-list page
    let required = (hw + 2) * PS;
    let current = 12 * PS;
    // first logged operation: the extension
    assert!(d.nops >= 1 && d.ops[0].kind == jv_env::fs::OP_ALLOCATE, "the file is extended before anything is written");
    let newlen = d.ops[0].len;
    assert!(newlen >= required, "the extension covers every page the commit writes");
    assert!((newlen - current) % (8 * 1024 * 1024) == 0 && newlen > current, "growth happens in whole 8 MiB steps");
    assert!(newlen - required < 8 * 1024 * 1024, "and not more steps than needed");
    let m = db.inner.meta();
    assert!(m.is_ok());
    if let Ok(m) = m {
        assert!(m.tx_id == C + 1 && m.num_pages == hw + 2, "the new header records the new high-water mark");
    }
}

// @ob props=C16,C02 tier=thorough cap=1200 mem=12 fns=Tx::commit,TxInner::write_data,DBInner::resize bound="12-page file whose header records a high-water mark of 12 pages: growth by less than one 8 MiB step" unwind=260
#[kani::proof]
#[kani::unwind(260)]
fn tx_commit_growth_small() {
    growth_case(12);
}

// @ob props=C16,C02 tier=quick cap=700 mem=10 fns=Tx::commit,TxInner::write_data,DBInner::resize bound="12-page file whose header records a high-water mark of 40000 pages (10 MB at 256-byte pages): growth crossing more than one 8 MiB step" unwind=260
#[kani::proof]
#[kani::unwind(260)]
fn tx_commit_growth_two_steps() {
    growth_case(40000);
}

// ---- C16-Ob5 / C05-Ob8: strict mode never rejects a valid commit (and rejects an inconsistent one)
fn strict_db(num_pages: u64) -> &'static DB {
    // 6-page file: headers, free-list page 2 = {4, 5}, empty root leaf 3, pages 4 and 5 free
    lay_meta(0, 0, C - 1, 3, 0, num_pages, 2, PS);
    lay_meta(1, 1, C, 3, 0, num_pages, 2, PS);
    lay_freelist(2, &[4, 5]);
    lay_empty_leaf(3);
    let db: &'static DB = Box::leak(Box::new(DB { inner: Arc::new(mk_dbinner(8, flags(true))) }));
    let mut fl = Freelist::new();
    fj::push_free(&mut fl, 4);
    fj::push_free(&mut fl, 5);
    {
        let mut g = db.inner.freelist.lock().unwrap();
        *g = fl;
    }
    db
}

// @ob props=C16,C05 tier=quick cap=850 mem=10 fns=Tx::commit,TxInner::write_data,TxInner::check,Page::freelist,Page::leaf_elements bound="6-page consistent file (free {4,5}), empty transaction, strict mode on: the commit rewrites the free list only" unwind=260
#[kani::proof]
#[kani::unwind(260)]
fn tx_commit_strict_mode_accepts() {
    let db = strict_db(6);
    let res = db.tx(true);
    assert!(res.is_ok());
    if let Ok(tx) = res {
        let r = tx.commit();
        assert!(r.is_ok(), "strict mode accepts a valid commit");
        std::mem::forget(r);
        let d = jv_env::disk();
        assert!(d.nwrites() == 2, "free-list page and header");
        let m = db.inner.meta();
        assert!(m.is_ok());
        if let Ok(m) = m {
            assert!(m.tx_id == C + 1 && m.freelist_page == 4 && m.num_pages == 6);
        }
    }
}

// @ob props=C05,C16 tier=thorough cap=1800 mem=12 fns=Tx::commit,TxInner::write_data,TxInner::check bound="same file but the header claims 7 pages (page 6 is neither reachable nor free), strict mode on: the self check must refuse, before the header is written" unwind=260
#[kani::proof]
#[kani::unwind(260)]
fn tx_commit_strict_mode_rejects_leak() {
    let db = strict_db(7);
    let res = db.tx(true);
    assert!(res.is_ok());
    if let Ok(tx) = res {
        let r = tx.commit();
        assert!(matches!(r, Err(Error::InvalidDB(_))), "the built-in check reports the unaccounted page");
        std::mem::forget(r);
        let m = db.inner.meta();
        assert!(m.is_ok());
        if let Ok(m) = m {
            assert!(m.tx_id == C, "and the header of the refused commit was not written");
        }
    }
}

// ---- C02 copy-on-write: a page freed by the committing transaction itself is not reused by that commit
//      (it is still part of the previous state), and no page in use is written
// @ob props=C02,C05 tier=quick cap=800 mem=10 fns=Tx::commit,TxInner::write_data,TxFreelist::free,TxFreelist::allocate,Freelist::allocate,Freelist::free bound="12-page file, free set {4}; the writer dirties one page (gets 4), frees page 9 (in use by the previous state), commits" unwind=260
#[kani::proof]
#[kani::unwind(260)]
fn tx_commit_cow_freed_page_not_reused() {
    let db = mk_db(&[4], false);
    {
        let mut fl = Freelist::new();
        fj::push_free(&mut fl, 4);
        let mut g = db.inner.freelist.lock().unwrap();
        *g = fl;
    }
    let d = jv_env::disk();
    let mut w = (6 * PS / 8) as usize;
    while w < (12 * PS / 8) as usize {
        d.words[w] = 0x5a5a_0000_0000_0000 | w as u64;
        w += 1;
    }
    let tx = match begin_and_dirty(db) {
        Some(t) => t,
        None => return,
    };
    {
        let inner = tx.inner.borrow();
        let mut tf = inner.freelist.borrow_mut();
        tf.free(9, 1); // e.g. the root page of a bucket deleted in this transaction
    }
    let r = tx.commit();
    assert!(r.is_ok());
    std::mem::forget(r);
    untouched_pages_ok();
    assert!(!d.oob);
    let m = db.inner.meta();
    assert!(m.is_ok());
    if let Ok(m) = m {
        assert!(m.tx_id == C + 1 && m.freelist_page == 12 && m.num_pages == 13,
                "no free page was left, so the new free-list page extends the file instead of reusing page 9");
    }
    let fl = db.inner.freelist.peek();
    assert!(fj::n_free(fl) == 0, "nothing freed by this transaction became allocatable");
    let p = fj::pending_of(fl, C + 1);
    assert!(p.is_some());
    if let Some(p) = p {
        assert!(p.len() == 2 && p[0] == 9 && p[1] == 2, "page 9 and the old free-list page are pending under the committing transaction");
    }
}

// ---- C07: the root-level bucket listing of a write transaction reflects its own creations
// @ob props=C07 tier=quick cap=800 mem=10 fns=Tx::buckets,Tx::create_bucket,Buckets::next,Cursor::next,InnerBucket::get_bucket,InnerBucket::bucket_getter bound="concrete scenario (one execution): committed root leaf with bucket m; the write transaction creates bucket c; first item of the root bucket listing" unwind=5
#[kani::proof]
#[kani::unwind(5)]
fn tx_buckets_lists_own_creation() {
    let db = mk_db(&[], false);
    // concrete names: listing + lookups per entry after a creation is a multi-step scenario (see harness/cursor.rs)
    let old: [u8; 1] = [b'm'];
    let new: [u8; 1] = [b'c'];
    let bv = crate::cursor::jv::bucket_value(5, 0);
    let d = jv_env::disk();
    crate::cursor::jv::put_leaf_page_at(d.as_mut_ptr(), 3, 0, &[crate::cursor::jv::Ent { t: 1, k: &old, v: &bv }]);
    crate::cursor::jv::put_leaf_page_at(d.as_mut_ptr(), 5, 0, &[]);
    let res = db.tx(true);
    assert!(res.is_ok());
    if let Ok(tx) = res {
        let c = tx.create_bucket(new);
        assert!(c.is_ok());
        std::mem::forget(c);
        // one step of the listing: the bucket created in this transaction sorts first and must be delivered first
        // (the full listing, three steps with a lookup each, does not finish symbolic execution in 20 min)
        let mut it = tx.buckets();
        let first = it.next();
        match &first {
            Some((n, _)) => assert!(n.name().len() == 1 && n.name()[0] == new[0], "the bucket created in this transaction is listed, in key order"),
            None => assert!(false, "the listing misses the buckets"),
        }
        std::mem::forget(first);
        std::mem::forget(it);
        std::mem::forget(tx);
    }
}

// ---- C03-Ob3: closing the OLDEST of several readers removes exactly its entry and keeps the list sorted
//      (younger readers' ids are appended by hand, as after later commits)
// @ob props=C03 tier=quick cap=600 fns=Tx::new,TxInner::drop bound="committed id 7; the reader under test is the oldest; two younger readers with any ascending ids > 7" unwind=5
#[kani::proof]
#[kani::unwind(5)]
#[kani::stub(crate::freelist::Freelist::release, crate::freelist::jv::release_recorder)]
fn tx_drop_oldest_reader_keeps_order() {
    let db = mk_db(&[], false);
    {
        let mut g = db.inner.open_ro_txs.lock().unwrap();
        *g = Vec::with_capacity(4);
    }
    let res = db.tx(false);
    assert!(res.is_ok());
    if let Ok(tx) = res {
        let y: [u64; 2] = kani::any();
        kani::assume(C < y[0] && y[0] < y[1]);
        {
            let mut g = db.inner.open_ro_txs.lock().unwrap();
            g.push(y[0]);
            g.push(y[1]);
        }
        drop(tx);
        let ro = db.inner.open_ro_txs.peek();
        assert!(ro.len() == 2 && ro[0] == y[0] && ro[1] == y[1], "the remaining readers stay registered, oldest first");
    }
}

// ---- C06-Ob1: bucket handles obtained from a READ-ONLY transaction's listing refuse to mutate
// @ob props=C06 tier=quick cap=800 mem=8 fns=Tx::buckets,Buckets::next,Bucket::put,Bucket::create_bucket,Bucket::delete_bucket bound="concrete scenario (one execution): committed root leaf with bucket m; read-only transaction; first item of tx.buckets(); put / create_bucket / delete on it" unwind=5
#[kani::proof]
#[kani::unwind(5)]
fn tx_ro_listing_handles_are_readonly() {
    let db = mk_db(&[], false);
    let old: [u8; 1] = [b'm'];
    let bv = crate::cursor::jv::bucket_value(5, 0);
    let d = jv_env::disk();
    crate::cursor::jv::put_leaf_page_at(d.as_mut_ptr(), 3, 0, &[crate::cursor::jv::Ent { t: 1, k: &old, v: &bv }]);
    crate::cursor::jv::put_leaf_page_at(d.as_mut_ptr(), 5, 0, &[]);
    let res = db.tx(false);
    assert!(res.is_ok());
    if let Ok(tx) = res {
        let mut it = tx.buckets();
        let first = it.next();
        assert!(first.is_some());
        if let Some((_, b)) = &first {
            assert!(!b.writable, "a handle from a read-only transaction's listing is not writable");
            let r = b.put([1u8], [2u8]);
            assert!(matches!(r, Err(Error::ReadOnlyTx)), "a handle from a read-only transaction's listing cannot put");
            std::mem::forget(r);
            let r = b.create_bucket([3u8]);
            assert!(matches!(r, Err(Error::ReadOnlyTx)));
            std::mem::forget(r);
            let r = b.delete([1u8]);
            assert!(matches!(r, Err(Error::ReadOnlyTx)));
            std::mem::forget(r);
        }
        std::mem::forget(first);
        std::mem::forget(it);
        std::mem::forget(tx);
    }
}

// ---- C11 / C16: a commit that has to grow the file and then fails leaves the handle's shared map covering the
//      (already extended) file, so the next transaction does not run past the end of its map
// @ob props=C11,C16 tier=quick cap=800 mem=10 fns=Tx::commit,TxInner::write_data,DBInner::resize bound="concrete (one execution): the growth case of tx_commit_growth_small with the first page write failing" unwind=260
#[kani::proof]
#[kani::unwind(260)]
fn tx_commit_growth_then_fault_map_covers_file() {
    lay_meta(0, 0, C - 1, 3, 0, 12, 2, PS);
    lay_meta(1, 1, C, 3, 0, 12, 2, PS);
    lay_freelist(2, &[]);
    lay_empty_leaf(3);
    let db: &'static DB = Box::leak(Box::new(DB { inner: Arc::new(mk_dbinner(12, flags(false))) }));
    let tx = match begin_and_dirty(db) {
        Some(t) => t,
        None => return,
    };
    let d = jv_env::disk();
    // fallible calls of a growing commit: 0 metadata, 1 allocate (extension), 2 seek, 3 write of the first dirty page
    d.fail_at = 3;
    let r = tx.commit();
    assert!(d.nfailed == 1);
    assert!(matches!(r, Err(Error::Io(_))));
    std::mem::forget(r);
    assert!(d.nops >= 1 && d.ops[0].kind == jv_env::fs::OP_ALLOCATE, "the file was extended before the failing write");
    let map_len = db.inner.data.peek().len();
    assert!(map_len >= d.len, "the shared map covers the extended file after the failed commit");
    assert!(!db.inner.file.is_held() && !db.inner.data.is_held() && !db.inner.mmap_lock.is_write_locked());
    let m = db.inner.meta();
    assert!(m.is_ok());
    if let Ok(m) = m {
        assert!(m.tx_id == C && m.num_pages == 12, "the pre-transaction state is still what the handle shows");
    }
}
