// Harnesses mounted as child module `jv` of src/tx.rs.
// Obligations: C03-Ob2/Ob3 (begin / drop steps over the shared reader list and free list),
// C06-Ob1/Ob2 (read-only guards, abandoned writer leaves no trace), C10-Ob2 (release at writer begin),
// C02 / C11 / C05 / C16 (the commit I/O sequence: TxInner::write_data over the op-logging disk model).
//
// States are built directly (typed stores into the model disk, shared structures assigned), never through
// init -> commit -> reopen chains.  Header contents are concrete (so the header checksums fold to
// constants during symbolic execution); transaction ids in the reader list and in the pending map,
// fault positions and crash cuts are symbolic.
use super::*;
use crate::db::jv::{lay_empty_leaf, lay_freelist, lay_meta, mk_dbinner, PS};
use crate::db::DBFlags;
use crate::freelist::jv as fj;
use crate::freelist::Freelist;
use jv_env::Arc;

/// current committed id in every harness below
const C: u64 = 7;

fn flags(strict: bool) -> DBFlags {
    DBFlags { strict_mode: strict, mmap_populate: false, direct_writes: false }
}

/// 12-page file: headers (slot 0: tx 6, slot 1: tx 7 = newest), free-list page 2 (given ids), root leaf 3
fn mk_db(free_ids: &[u64], strict: bool) -> &'static DB {
    lay_meta(0, 0, C - 1, 3, 0, 12, 2, PS);
    lay_meta(1, 1, C, 3, 0, 12, 2, PS);
    lay_freelist(2, free_ids);
    lay_empty_leaf(3);
    // leaked: a Tx borrows the DB, and nothing is dropped at the end of a harness
    Box::leak(Box::new(DB { inner: Arc::new(mk_dbinner(12, flags(strict))) }))
}

/// shared free list: free {4}, pending t[0] -> [9], t[1] -> [6]
fn set_shared_freelist(db: &DB, t: &[u64; 2]) {
    let mut fl = Freelist::new();
    fj::push_free(&mut fl, 4);
    fj::push_pending(&mut fl, t[0], vec![9]);
    fj::push_pending(&mut fl, t[1], vec![6]);
    let mut g = db.inner.freelist.lock().unwrap();
    *g = fl;
}

fn shared_unchanged(db: &DB, t: &[u64; 2]) {
    let fl = db.inner.freelist.peek();
    assert!(fj::n_free(fl) == 1 && fj::is_free(fl, 4), "shared free set untouched");
    assert!(fj::n_pending_lists(fl) == 2, "shared pending lists untouched");
    let p0 = fj::pending_of(fl, t[0]).unwrap();
    let p1 = fj::pending_of(fl, t[1]).unwrap();
    assert!(p0.len() == 1 && p0[0] == 9 && p1.len() == 1 && p1[0] == 6);
}

fn any_pending_ids() -> [u64; 2] {
    let t: [u64; 2] = kani::any();
    kani::assume(t[0] < t[1] && t[1] <= C);
    t
}

/// tx-local free list after begin: list i released iff t[i] < bound
fn local_released_below(tx: &Tx, t: &[u64; 2], bound: u64) {
    let inner = tx.inner.borrow();
    let tf = inner.freelist.borrow();
    let fl = &tf.inner;
    assert!(fj::is_free(fl, 4));
    let rel = [t[0] < bound, t[1] < bound];
    assert!(fj::is_free(fl, 9) == rel[0], "list 0 released iff older than every reader");
    assert!(fj::is_free(fl, 6) == rel[1], "list 1 released iff older than every reader");
    assert!(fj::pending_of(fl, t[0]).is_some() == !rel[0]);
    assert!(fj::pending_of(fl, t[1]).is_some() == !rel[1]);
    assert!(fj::n_free(fl) == 1 + rel[0] as usize + rel[1] as usize, "nothing else became free");
}

// ---- C03-Ob2 / C10-Ob2: writer begin releases with bound = oldest open reader, or committed + 1 when none is open.
//      Decided at the call site: Freelist::release is replaced by a recorder (its effect for every bound is
//      fl_release_step); everything else in Tx::new is the real code.
// @ob props=C03,C10,C06 tier=quick cap=400 fns=Tx::new,DBInner::meta,TxFreelist::new,InnerBucket::from_meta,Pages::page,Pages::new bound="committed id 7; reader list of 2 sorted ids <= 7 (any, duplicates allowed)" unwind=5
#[kani::proof]
#[kani::unwind(5)]
#[kani::stub(crate::freelist::Freelist::release, crate::freelist::jv::release_recorder)]
fn tx_begin_writer_release_bound() {
    let db = mk_db(&[], false);
    let r: [u64; 2] = kani::any();
    kani::assume(r[0] <= r[1] && r[1] <= C);
    {
        let mut g = db.inner.open_ro_txs.lock().unwrap();
        *g = Vec::with_capacity(4);
        g.push(r[0]);
        g.push(r[1]);
    }
    let res = db.tx(true);
    assert!(res.is_ok());
    if let Ok(tx) = res {
        assert!(tx.writable());
        assert!(tx.inner.borrow().meta.tx_id == C + 1, "the writer works on id committed + 1");
        assert!(fj::release_calls() == 1 && fj::release_arg(0) == r[0], "pages are released only below the oldest open reader");
        assert!(tx.inner.borrow().freelist.borrow().meta.tx_id == C + 1, "pages freed by this writer are tagged with its id");
        assert!(tx.inner.borrow().freelist.borrow().meta.num_pages == 12);
        let ro = db.inner.open_ro_txs.peek();
        assert!(ro.len() == 2 && ro[0] == r[0] && ro[1] == r[1], "reader list untouched by a writer");
        assert!(db.inner.file.is_held(), "the writer holds the file mutex");
        assert!(!db.inner.freelist.is_held() && !db.inner.open_ro_txs.is_held() && !db.inner.data.is_held());
        assert!(db.inner.mmap_lock.readers() == 0);
        assert!(jv_env::disk().nops == 0, "begin writes nothing");
        kani::cover!(r[0] < r[1]);
        kani::cover!(r[0] == C);
        std::mem::forget(tx);
    }
}

// @ob props=C03,C10 tier=quick cap=400 fns=Tx::new,DBInner::meta bound="committed id 7; no reader open" unwind=5
#[kani::proof]
#[kani::unwind(5)]
#[kani::stub(crate::freelist::Freelist::release, crate::freelist::jv::release_recorder)]
fn tx_begin_writer_no_reader() {
    let db = mk_db(&[], false);
    let res = db.tx(true);
    assert!(res.is_ok());
    if let Ok(tx) = res {
        assert!(tx.inner.borrow().meta.tx_id == C + 1);
        assert!(fj::release_calls() == 1 && fj::release_arg(0) == C + 1, "with no reader everything committed is released");
        assert!(db.inner.open_ro_txs.peek().len() == 0);
        assert!(db.inner.file.is_held());
        std::mem::forget(tx);
    }
}

// ---- integration of the two halves (real release inside the real begin), thorough tier
// @ob props=C03,C10 tier=thorough cap=900 mem=30 fns=Tx::new,DBInner::meta,Freelist::release bound="committed id 7; 2 pending lists (1 page each) with any ascending ids <= 7; one reader with any id <= 7; free set {4}" unwind=5
#[kani::proof]
#[kani::unwind(5)]
fn tx_begin_writer_integrated() {
    let db = mk_db(&[], false);
    let t = any_pending_ids();
    set_shared_freelist(db, &t);
    let r0: u64 = kani::any();
    kani::assume(r0 <= C);
    {
        let mut g = db.inner.open_ro_txs.lock().unwrap();
        *g = Vec::with_capacity(2);
        g.push(r0);
    }
    let res = db.tx(true);
    assert!(res.is_ok());
    if let Ok(tx) = res {
        local_released_below(&tx, &t, r0);
        shared_unchanged(db, &t);
        kani::cover!(t[0] < r0 && t[1] >= r0, "a reader pins the younger list");
        std::mem::forget(tx);
    }
}

// ---- C03-Ob3: reader begin registers the committed id, changes nothing else; drop deregisters exactly one occurrence
// @ob props=C03,C06 tier=quick cap=600 fns=Tx::new,DBInner::meta,TxInner::drop bound="committed id 7; reader list of 2 sorted ids <= 7 (any, duplicates allowed)" unwind=5
#[kani::proof]
#[kani::unwind(5)]
#[kani::stub(crate::freelist::Freelist::release, crate::freelist::jv::release_recorder)]
fn tx_begin_reader_and_drop() {
    let db = mk_db(&[], false);
    let r: [u64; 2] = kani::any();
    kani::assume(r[0] <= r[1] && r[1] <= C);
    {
        let mut g = db.inner.open_ro_txs.lock().unwrap();
        *g = Vec::with_capacity(4);
        g.push(r[0]);
        g.push(r[1]);
    }
    let res = db.tx(false);
    assert!(res.is_ok());
    if let Ok(tx) = res {
        assert!(!tx.writable());
        assert!(tx.inner.borrow().meta.tx_id == C, "a reader sees the newest committed header");
        assert!(tx.inner.borrow().meta.root.root_page == 3);
        {
            let ro = db.inner.open_ro_txs.peek();
            assert!(ro.len() == 3 && ro[0] == r[0] && ro[1] == r[1] && ro[2] == C, "registered, list stays sorted");
        }
        assert!(fj::release_calls() == 0, "a reader releases nothing");
        assert!(!db.inner.file.is_held(), "a reader does not take the writer lock");
        assert!(db.inner.mmap_lock.readers() == 1, "a reader holds the map read lock");
        assert!(jv_env::disk().nops == 0);
        drop(tx);
        let ro = db.inner.open_ro_txs.peek();
        assert!(ro.len() == 2 && ro[0] == r[0] && ro[1] == r[1], "drop removes exactly its own registration");
        assert!(db.inner.mmap_lock.readers() == 0);
        kani::cover!(r[1] == C, "an older reader with the same id stays registered");
        kani::cover!(r[0] < r[1] && r[1] < C);
    }
}

// ---- C06-Ob2: a writer that frees and allocates and is then dropped leaves shared state and file untouched
// @ob props=C06,C03 tier=quick cap=600 fns=Tx::new,TxInner::drop,TxFreelist::free,TxFreelist::allocate bound="committed id 7; writer frees run (3,1), allocates 300 bytes (2 pages) and 40 bytes; 2 pending lists any ids <= 7; one reader" unwind=5
#[kani::proof]
#[kani::unwind(5)]
fn tx_abandoned_writer_no_trace() {
    let db = mk_db(&[], false);
    let t = [3u64, 5];
    set_shared_freelist(db, &t);
    let r0: u64 = kani::any();
    kani::assume(r0 <= C);
    {
        let mut g = db.inner.open_ro_txs.lock().unwrap();
        g.push(r0);
    }
    let res = db.tx(true);
    assert!(res.is_ok());
    if let Ok(tx) = res {
        {
            let inner = tx.inner.borrow();
            let mut tf = inner.freelist.borrow_mut();
            tf.free(3, 1);
            let a = tf.allocate(300);
            assert!(a.is_ok());
            std::mem::forget(a);
            let b = tf.allocate(40);
            assert!(b.is_ok());
            std::mem::forget(b);
        }
        drop(tx);
        shared_unchanged(db, &t);
        let ro = db.inner.open_ro_txs.peek();
        assert!(ro.len() == 1 && ro[0] == r0, "reader list untouched");
        assert!(!db.inner.file.is_held(), "the writer lock is free again");
        assert!(jv_env::disk().nops == 0, "no byte of the file was written");
        let m = db.inner.meta();
        assert!(m.is_ok());
        if let Ok(m) = m {
            assert!(m.tx_id == C && m.num_pages == 12 && m.root.root_page == 3 && m.freelist_page == 2, "committed header unchanged");
        }
    }
}

// ---- C06-Ob1: every mutating entry point of a read-only transaction fails with ReadOnlyTx and changes nothing
// @ob props=C06 tier=quick cap=600 fns=Tx::create_bucket,Tx::get_or_create_bucket,Tx::delete_bucket,Tx::commit,Tx::writable bound="read-only transaction on the 12-page image; bucket names of 1 symbolic byte" unwind=5
#[kani::proof]
#[kani::unwind(5)]
fn tx_readonly_guards() {
    let db = mk_db(&[], false);
    let res = db.tx(false);
    assert!(res.is_ok());
    if let Ok(tx) = res {
        let name: [u8; 1] = kani::any();
        let r1 = tx.create_bucket(name);
        assert!(matches!(r1, Err(Error::ReadOnlyTx)));
        std::mem::forget(r1);
        let r2 = tx.get_or_create_bucket(name);
        assert!(matches!(r2, Err(Error::ReadOnlyTx)));
        std::mem::forget(r2);
        let r3 = tx.delete_bucket(name);
        assert!(matches!(r3, Err(Error::ReadOnlyTx)));
        std::mem::forget(r3);
        {
            let inner = tx.inner.borrow();
            assert!(crate::bucket::jv::is_clean(&inner.root.borrow()), "the root bucket was not touched");
            assert!(inner.freelist.borrow().pages.len() == 0);
        }
        let r4 = tx.commit();
        assert!(matches!(r4, Err(Error::ReadOnlyTx)));
        std::mem::forget(r4);
        assert!(jv_env::disk().nops == 0, "no byte of the file was written");
        assert!(db.inner.open_ro_txs.peek().len() == 0, "commit consumed and deregistered the reader");
    }
}



