// Harnesses mounted as child module `jv` of src/db.rs.
// Obligations: C12-Ob4 (header selection under single-byte damage), C15-Ob2/Ob4 (init_file layout,
// page-size mismatch refused), C10-Ob4 / C06-Ob3 (open reloads the free list and writes nothing),
// C16-Ob4 (alignment for every page size the builder accepts), C02 (header selection = newest valid).
use super::*;
use jv_env::fs::{OP_ALLOCATE, OP_FLUSH, OP_SYNC, OP_WRITE};

pub(crate) const PS: u64 = 256;

/// lay a header page directly into the model disk with typed stores (no memcpy: keeps bytes constant for symex)
pub(crate) fn lay_meta(slot: u64, at_page: u64, tx_id: u64, root_page: u64, next_int: u64, num_pages: u64, freelist_page: u64, pagesize: u64) {
    let d = jv_env::disk();
    unsafe {
        let p = &mut *(d.as_mut_ptr().add((at_page * PS) as usize) as *mut Page);
        p.id = slot;
        p.page_type = Page::TYPE_META;
        p.count = 0;
        p.overflow = 0;
        let m = p.meta_mut();
        m.meta_page = slot as u32;
        m.magic = MAGIC_VALUE;
        m.version = VERSION;
        m.pagesize = pagesize;
        m.root = BucketMeta { root_page, next_int };
        m.num_pages = num_pages;
        m.freelist_page = freelist_page;
        m.tx_id = tx_id;
        m.hash = m.hash_self();
    }
}

pub(crate) fn lay_freelist(at_page: u64, ids: &[u64]) {
    let d = jv_env::disk();
    unsafe {
        let base = d.as_mut_ptr().add((at_page * PS) as usize);
        let p = &mut *(base as *mut Page);
        p.id = at_page;
        p.page_type = Page::TYPE_FREELIST;
        p.count = ids.len() as u64;
        p.overflow = 0;
        let mut i = 0;
        while i < ids.len() {
            *(base.add(32 + 8 * i) as *mut u64) = ids[i];
            i += 1;
        }
    }
}

pub(crate) fn lay_empty_leaf(at_page: u64) {
    let d = jv_env::disk();
    unsafe {
        let p = &mut *(d.as_mut_ptr().add((at_page * PS) as usize) as *mut Page);
        p.id = at_page;
        p.page_type = Page::TYPE_LEAF;
        p.count = 0;
        p.overflow = 0;
    }
}

pub(crate) fn any_flags() -> DBFlags {
    DBFlags { strict_mode: false, mmap_populate: kani::any(), direct_writes: kani::any() }
}

/// a DBInner built directly over the model disk (skips init/open)
pub(crate) fn mk_dbinner(npages: usize, flags: DBFlags) -> DBInner {
    let d = jv_env::disk();
    d.len = npages * PS as usize;
    let file = File::raw();
    let map = unsafe { Mmap::map(&file).unwrap() };
    DBInner {
        data: Mutex::new(Arc::new(map)),
        mmap_lock: RwLock::new(()),
        freelist: Mutex::new(Freelist::new()),
        file: Mutex::new(file),
        open_ro_txs: Mutex::new(Vec::new()),
        flags,
        pagesize: PS,
    }
}

// ---- C02 / C12: with both headers intact the one with the larger transaction id defines the state
// @ob props=C12,C02,C03 tier=quick cap=300 fns=DBInner::meta,Page::from_buf,Page::meta,Meta::valid bound="two valid headers, every field of both symbolic (distinct tx ids), 256-byte pages" unwind=9
#[kani::proof]
#[kani::unwind(9)]
fn db_meta_picks_newer() {
    crate::jv_top_stubs::hash_cheap(true); // symbolic headers: two checksum computations are compared (see env/fnv)
    let t0: u64 = kani::any();
    let t1: u64 = kani::any();
    kani::assume(t0 != t1);
    let r0: u64 = kani::any();
    let r1: u64 = kani::any();
    let n0: u64 = kani::any();
    let n1: u64 = kani::any();
    lay_meta(0, 0, t0, r0, kani::any(), n0, kani::any(), PS);
    lay_meta(1, 1, t1, r1, kani::any(), n1, kani::any(), PS);
    let db = mk_dbinner(4, any_flags());
    let m = db.meta().unwrap();
    if t0 > t1 {
        assert!(m.tx_id == t0 && m.root.root_page == r0 && m.num_pages == n0 && m.meta_page == 0);
    } else {
        assert!(m.tx_id == t1 && m.root.root_page == r1 && m.num_pages == n1 && m.meta_page == 1);
    }
    assert!(m.valid());
    assert!(!db.data.is_held(), "meta() releases the map mutex");
    assert!(jv_env::disk().nops == 0, "reading the header writes nothing");
    kani::cover!(t0 > t1);
    kani::cover!(t0 < t1);
    std::mem::forget(db);
}

/// damage classification of a byte offset inside a header page:
/// true = the byte is covered by the validity test (type byte, hashed fields, hash word)
fn offset_is_protected(off: usize) -> bool {
    // page header: id 0..8, type 8, pad 9..16, count 16..24, overflow 24..32
    // record @32: meta_page 32..36, magic 36..40, version 40..44, pad 44..48,
    //             pagesize 48..56, root_page 56..64, next_int 64..72, num_pages 72..80,
    //             freelist_page 80..88, tx_id 88..96, hash 96..104
    off == 8 || (off >= 32 && off < 44) || (off >= 48 && off < 104)
}

fn damage_case(newer_slot: u64, damaged_slot: u64, lo: usize, hi: usize) {
    let (t0, t1) = if newer_slot == 0 { (7, 6) } else { (6, 7) };
    lay_meta(0, 0, t0, 3, 5, 9, 2, PS);
    lay_meta(1, 1, t1, 4, 6, 10, 8, PS);
    let db = mk_dbinner(4, DBFlags { strict_mode: false, mmap_populate: false, direct_writes: false });
    let d = jv_env::disk();
    let off: usize = kani::any();
    kani::assume(off >= lo && off < hi);
    let val: u8 = kani::any();
    let base = (damaged_slot * PS) as usize;
    // constant-index guarded stores: keeps the other page's bytes constant for symbolic execution
    let mut k = lo;
    while k < hi {
        if k == off {
            kani::assume(val != d.byte(base + k));
            d.set_byte(base + k, val);
        }
        k += 1;
    }
    let m = db.meta().unwrap();
    let expect_slot = if offset_is_protected(off) { 1 - damaged_slot } else { newer_slot };
    if expect_slot == 0 {
        assert!(m.meta_page == 0 && m.tx_id == t0 && m.root.root_page == 3 && m.root.next_int == 5 && m.num_pages == 9 && m.freelist_page == 2,
                "the intact header's state is shown in full");
    } else {
        assert!(m.meta_page == 1 && m.tx_id == t1 && m.root.root_page == 4 && m.root.next_int == 6 && m.num_pages == 10 && m.freelist_page == 8,
                "the intact header's state is shown in full");
    }
    std::mem::forget(db);
}

// ---- C12-Ob4: one damaged byte anywhere in a header page: never a panic, never the damaged header
// (concrete header contents, symbolic offset and value: the solver covers all 255 wrong values at every offset)
// @ob props=C12 tier=quick cap=400 fns=DBInner::meta,Page::from_buf,Page::meta,Page::old_meta,Meta::valid,Meta::hash_self,OldMeta::valid bound="newer header in slot 1, damage in slot 1 (the newer), any offset in 0..104 except the page-type byte, any wrong value; header contents concrete" unwind=33
#[kani::proof]
#[kani::unwind(33)]
fn db_meta_damage_newer1_hdr() {
    let off_lo: bool = kani::any();
    if off_lo {
        damage_case(1, 1, 0, 8);
    } else {
        damage_case(1, 1, 9, 32);
    }
}

// @ob props=C12 tier=quick cap=600 fns=DBInner::meta,Meta::valid,Meta::hash_self,OldMeta::valid bound="newer header in slot 1, damage in slot 1, any offset in the record 32..104, any wrong value" unwind=73
#[kani::proof]
#[kani::unwind(73)]
fn db_meta_damage_newer1_rec() {
    damage_case(1, 1, 32, 104);
}

// @ob props=C12 tier=quick cap=600 fns=DBInner::meta,Meta::valid,Meta::hash_self,OldMeta::valid bound="newer header in slot 0, damage in slot 1 (the older), any offset in the record 32..104, any wrong value" unwind=73
#[kani::proof]
#[kani::unwind(73)]
fn db_meta_damage_older1_rec() {
    damage_case(0, 1, 32, 104);
}

// @ob props=C12 tier=quick cap=600 fns=DBInner::meta,Meta::valid,Meta::hash_self,OldMeta::valid bound="newer header in slot 0, damage in slot 0 (the newer), any offset in the record 32..104, any wrong value" unwind=73
#[kani::proof]
#[kani::unwind(73)]
fn db_meta_damage_newer0_rec() {
    damage_case(0, 0, 32, 104);
}

// @ob props=C12 tier=thorough cap=600 fns=DBInner::meta,Meta::valid,Meta::hash_self,OldMeta::valid bound="newer header in slot 1, damage in slot 0 (the older), any offset in the record 32..104, any wrong value" unwind=73
#[kani::proof]
#[kani::unwind(73)]
fn db_meta_damage_older0_rec() {
    damage_case(1, 0, 32, 104);
}

// ---- C12-Ob4, page-type byte (offset 8): outside the checksum; a damaged type byte must make the
//      header untrusted, not abort the open
// @ob props=C12 tier=quick cap=400 fns=DBInner::meta,Page::meta,Page::old_meta bound="damage to the page-type byte of slot 1, newer header in either slot, any wrong value" unwind=9
#[kani::proof]
#[kani::unwind(9)]
fn db_meta_damage_type_byte_slot1() {
    if kani::any() {
        damage_case(1, 1, 8, 9);
    } else {
        damage_case(0, 1, 8, 9);
    }
}

// @ob props=C12 tier=quick cap=400 fns=DBInner::meta,Page::meta,Page::old_meta bound="damage to the page-type byte of slot 0, newer header in either slot, any wrong value" unwind=9
#[kani::proof]
#[kani::unwind(9)]
fn db_meta_damage_type_byte_slot0() {
    if kani::any() {
        damage_case(1, 0, 8, 9);
    } else {
        damage_case(0, 0, 8, 9);
    }
}

// ---- C15-Ob4: a file whose header records a different page size is refused (documented panic), never opened
// @ob props=C15 tier=quick cap=300 fns=DBInner::meta,DBInner::open allow="Invalid pagesize from meta" bound="valid headers carrying any page size != the configured 256 (both slots equal), any tx ids" unwind=9
#[kani::proof]
#[kani::unwind(9)]
fn db_meta_pagesize_mismatch_refused() {
    crate::jv_top_stubs::hash_cheap(true);
    let ps: u64 = kani::any();
    kani::assume(ps != PS);
    let t0: u64 = kani::any();
    let t1: u64 = kani::any();
    lay_meta(0, 0, t0, 3, 0, 4, 2, ps);
    lay_meta(1, 1, t1, 3, 0, 4, 2, ps);
    let db = mk_dbinner(4, any_flags());
    let r = db.meta();
    // reaching this point means the mismatch was not refused
    assert!(r.is_err(), "JV-MARK: a header with a different page size was accepted");
    assert!(jv_env::disk().nops == 0);
    std::mem::forget(r);
    std::mem::forget(db);
}

// ---- C10-Ob4 / C06-Ob3 / C12: open() loads the free list named by the chosen header, takes the lock
//      before mapping, and performs no write
// @ob props=C10,C06,C12,C02 tier=quick cap=400 fns=DBInner::open,DBInner::meta,Freelist::init,Page::freelist,Page::from_buf bound="two valid headers naming different free-list pages (3 symbolic ascending ids each), symbolic tx ids, symbolic flags" unwind=9
#[kani::proof]
#[kani::unwind(9)]
fn db_open_reloads_freelist() {
    crate::jv_top_stubs::hash_cheap(true);
    let t0: u64 = kani::any();
    let t1: u64 = kani::any();
    kani::assume(t0 != t1);
    lay_meta(0, 0, t0, 3, 0, 12, 2, PS);
    lay_meta(1, 1, t1, 3, 0, 12, 4, PS);
    // both lists have 3 entries (a symbolic entry count makes the reload loop's trip count symbolic)
    let a: [u64; 3] = kani::any();
    kani::assume(a[0] >= 5 && a[0] < a[1] && a[1] < a[2] && a[2] < 12);
    let b: [u64; 3] = kani::any();
    kani::assume(b[0] >= 5 && b[0] < b[1] && b[1] < b[2] && b[2] < 12);
    lay_freelist(2, &a);
    lay_freelist(4, &b);
    lay_empty_leaf(3);
    let d = jv_env::disk();
    d.len = 12 * PS as usize;
    let r = DBInner::open(File::raw(), PS, any_flags());
    assert!(r.is_ok());
    let db = match r {
        Ok(db) => db,
        Err(e) => {
            std::mem::forget(e);
            return;
        }
    };
    assert!(d.locked, "the exclusive lock is taken");
    assert!(d.nops == 0, "opening an existing database performs no write, allocate or sync");
    let fl = db.freelist.peek();
    let want = if t0 > t1 { a } else { b };
    assert!(crate::freelist::jv::n_free(fl) == 3 && crate::freelist::jv::n_pending_lists(fl) == 0);
    assert!(crate::freelist::jv::is_free(fl, want[0]) && crate::freelist::jv::is_free(fl, want[1]) && crate::freelist::jv::is_free(fl, want[2]),
            "the free list named by the newer header is loaded, every id of it");
    assert!(db.open_ro_txs.peek().len() == 0);
    assert!(!db.file.is_held() && !db.data.is_held() && !db.freelist.is_held());
    kani::cover!(t0 > t1 && a[0] != b[0]);
    kani::cover!(t0 < t1 && a[0] != b[0]);
    std::mem::forget(db);
}

// ---- C16-Ob4: for every page size the builder accepts, viewing page `id` of a mapped file is an
//      aligned access (Kani's misaligned-dereference check; replays natively as the debug-build abort)
// @ob props=C16 tier=quick cap=200 fns=OpenOptions::pagesize,Page::from_buf allow="Pagesize must be" bound="any page size <= 2048 offered to the builder (refusal by the documented panic is acceptable), page ids 0..=2" unwind=2
#[kani::proof]
fn db_page_view_aligned_for_accepted_sizes() {
    let buf = [0u64; 1024]; // 8192 bytes, 8-aligned base like a memory map
    let bytes: &[u8] = unsafe { std::slice::from_raw_parts(buf.as_ptr() as *const u8, 8192) };
    let ps: u64 = kani::any();
    kani::assume(ps <= 2048);
    let o = OpenOptions { pagesize: 4096, num_pages: 32, flags: DBFlags { strict_mode: false, mmap_populate: false, direct_writes: false } };
    let o = o.pagesize(ps);
    let id: u64 = kani::any();
    kani::assume(id <= 2);
    let p = Page::from_buf(bytes, id, o.pagesize);
    let t = p.page_type;
    let c = p.count;
    assert!(t == 0 && c == 0);
    kani::cover!(o.pagesize == 1032 && id == 1);
    kani::cover!(o.pagesize == 1024 && id == 2);
}

// ---- C16: builder bounds: fewer than 4 pages refused; options are stored as given
// @ob props=C16 tier=quick cap=120 fns=OpenOptions::num_pages,OpenOptions::strict_mode,OpenOptions::mmap_populate,OpenOptions::direct_writes allow="Must have a minimum of 4 pages" bound="any usize page count, any flag values" unwind=2
#[kani::proof]
fn db_builder_stores_options() {
    let o = OpenOptions { pagesize: 4096, num_pages: 32, flags: DBFlags { strict_mode: false, mmap_populate: false, direct_writes: false } };
    let n: usize = kani::any();
    let (s, m, dw): (bool, bool, bool) = (kani::any(), kani::any(), kani::any());
    let o = o.num_pages(n).strict_mode(s).mmap_populate(m).direct_writes(dw);
    assert!(n >= 4, "JV-MARK: fewer than four pages accepted");
    assert!(o.num_pages == n && o.pagesize == 4096);
    assert!(o.flags.strict_mode == s && o.flags.mmap_populate == m && o.flags.direct_writes == dw);
}

// ---- C15-Ob2: a freshly created file conforms to the pinned layout: two valid headers (slots 0, 1),
//      free-list page 2 (empty), empty leaf root 3, high-water mark 4, and it is synced before use
// @ob props=C15,C02,C16 tier=quick cap=400 fns=init_file,open_file,Meta::hash_self bound="256-byte pages, any initial page count in 4..=16, both direct-write settings" unwind=1030
#[kani::proof]
#[kani::unwind(1030)]
fn db_init_file_layout() {
    let np: usize = kani::any();
    kani::assume(np >= 4 && np <= 16);
    let f = init_file(Path::new("x"), PS, np, kani::any()).unwrap();
    let d = jv_env::disk();
    assert!(d.len == np * PS as usize, "file is pre-allocated to num_pages * pagesize");
    assert!(d.nops == 4);
    assert!(d.ops[0].kind == OP_ALLOCATE && d.ops[0].len == (np as u64) * PS);
    assert!(d.ops[1].kind == OP_WRITE && d.ops[1].off == 0 && d.ops[1].len == 4 * PS);
    assert!(d.ops[2].kind == OP_FLUSH && d.ops[3].kind == OP_SYNC, "the initial image is synced");
    assert!(!d.oob);
    let base = d.as_ptr();
    let rd = |off: usize| -> u64 {
        let mut b = [0u8; 8];
        let mut i = 0;
        while i < 8 {
            b[i] = unsafe { *base.add(off + i) };
            i += 1;
        }
        u64::from_le_bytes(b)
    };
    let mut s = 0usize;
    while s < 2 {
        let p = s * PS as usize;
        assert!(rd(p) == s as u64 && d.byte(p + 8) == 3, "header page id and type");
        assert!(rd(p + 32) & 0xffff_ffff == s as u64, "meta_page = slot");
        assert!(rd(p + 32) >> 32 == 0x00AB_CDEF, "magic");
        assert!(rd(p + 40) & 0xffff_ffff == 1, "version");
        assert!(rd(p + 48) == PS && rd(p + 56) == 3 && rd(p + 64) == 0 && rd(p + 72) == 4 && rd(p + 80) == 2 && rd(p + 88) == 0);
        let m = Meta { meta_page: s as u32, magic: 0x00AB_CDEF, version: 1, pagesize: PS, root: BucketMeta { root_page: 3, next_int: 0 }, num_pages: 4, freelist_page: 2, tx_id: 0, hash: 0 };
        assert!(rd(p + 96) == m.hash_self(), "header checksum is valid");
        s += 1;
    }
    assert!(rd(2 * 256) == 2 && d.byte(2 * 256 + 8) == 4 && rd(2 * 256 + 16) == 0, "page 2: empty free list");
    assert!(rd(3 * 256) == 3 && d.byte(3 * 256 + 8) == 2 && rd(3 * 256 + 16) == 0, "page 3: empty leaf (root bucket)");
    std::mem::forget(f);
}


// ---- C10-Ob4: a free list that spans more than one page (overflow run) is reloaded completely on open
// (profile set32: the sorted-set model holds 32 entries there)
// @ob props=C10,C02 tier=quick cap=600 profile=set32 native=no mem=6 fns=DBInner::open,DBInner::meta,Freelist::init,Page::freelist,Page::from_buf bound="concrete (one execution): 256-byte pages, free-list page 2 with 30 ids (2-page run: 40 + 240 bytes), both headers name it" unwind=35
#[kani::proof]
#[kani::unwind(35)]
fn db_open_reloads_long_freelist() {
    lay_meta(0, 0, 6, 5, 0, 64, 2, PS);
    lay_meta(1, 1, 7, 5, 0, 64, 2, PS);
    let mut ids = [0u64; 30];
    let mut i = 0;
    while i < 30 {
        ids[i] = 10 + i as u64;
        i += 1;
    }
    lay_freelist(2, &ids); // 32 + 240 bytes: runs into page 3
    let d = jv_env::disk();
    unsafe {
        let p = &mut *(d.as_mut_ptr().add((2 * PS) as usize) as *mut Page);
        p.overflow = 1;
    }
    lay_empty_leaf(5);
    d.len = 12 * PS as usize;
    let r = DBInner::open(File::raw(), PS, DBFlags { strict_mode: false, mmap_populate: false, direct_writes: false });
    assert!(r.is_ok());
    if let Ok(db) = r {
        let fl = db.freelist.peek();
        assert!(crate::freelist::jv::n_free(fl) == 30, "every id of a multi-page free list is reloaded");
        assert!(crate::freelist::jv::is_free(fl, 10) && crate::freelist::jv::is_free(fl, 36) && crate::freelist::jv::is_free(fl, 37) && crate::freelist::jv::is_free(fl, 39),
                "including the ids stored beyond the first page of the run");
        assert!(d.nops == 0);
        std::mem::forget(db);
    }
}

// ---- C12: a zeroed header page (e.g. a lost sector) falls back to the other header
// @ob props=C12 tier=quick cap=400 fns=DBInner::meta,Page::from_buf,Page::meta,Meta::valid bound="concrete headers (tx 6 in slot 0, tx 7 in slot 1); the first 104 bytes of slot 0 or of slot 1 zeroed (symbolic choice)" unwind=40
#[kani::proof]
#[kani::unwind(40)]
fn db_meta_zeroed_header_page() {
    lay_meta(0, 0, 6, 3, 5, 9, 2, PS);
    lay_meta(1, 1, 7, 4, 6, 10, 8, PS);
    let db = mk_dbinner(4, DBFlags { strict_mode: false, mmap_populate: false, direct_writes: false });
    let d = jv_env::disk();
    let which: bool = kani::any();
    let base = if which { (PS / 8) as usize } else { 0 };
    let mut w = 0;
    while w < 13 {
        d.words[base + w] = 0;
        w += 1;
    }
    let m = db.meta();
    assert!(m.is_ok());
    if let Ok(m) = m {
        if which {
            assert!(m.meta_page == 0 && m.tx_id == 6 && m.root.root_page == 3 && m.freelist_page == 2, "newest header zeroed: the previous commit is shown in full");
        } else {
            assert!(m.meta_page == 1 && m.tx_id == 7 && m.root.root_page == 4 && m.freelist_page == 8, "older header zeroed: the newest commit is shown");
        }
    }
    std::mem::forget(db);
}

// ---- C15: a file carrying only legacy-format headers is accepted through the legacy path and converted
//      (the SHA3 checksum is the solver builds' stand-in function, see env/sha3)
// @ob props=C15 tier=quick cap=600 fns=DBInner::meta,Page::old_meta,OldMeta::valid,OldMeta::hash_self,OldMeta::bytes,Meta::from<&OldMeta> bound="both header slots in the legacy layout (32-byte checksum), concrete fields, tx 6 and tx 7" unwind=40
#[kani::proof]
#[kani::unwind(40)]
fn db_meta_legacy_headers_accepted() {
    let d = jv_env::disk();
    let mut s = 0u64;
    while s < 2 {
        unsafe {
            let p = &mut *(d.as_mut_ptr().add((s * PS) as usize) as *mut Page);
            p.id = s;
            p.page_type = Page::TYPE_META;
            p.count = 0;
            p.overflow = 0;
            let m = &mut *(&mut p.ptr as *mut u64 as *mut crate::meta::OldMeta);
            m.meta_page = s as u32;
            m.magic = MAGIC_VALUE;
            m.version = VERSION;
            m.pagesize = PS;
            m.root = BucketMeta { root_page: 3 + s, next_int: 5 };
            m.num_pages = 9;
            m.freelist_page = 2;
            m.tx_id = 6 + s;
            m.hash = m.hash_self();
        }
        s += 1;
    }
    let db = mk_dbinner(4, DBFlags { strict_mode: false, mmap_populate: false, direct_writes: false });
    let m = db.meta();
    assert!(m.is_ok(), "a legacy-format file opens");
    if let Ok(m) = m {
        assert!(m.tx_id == 7 && m.meta_page == 1 && m.root.root_page == 4 && m.root.next_int == 5 && m.num_pages == 9 && m.freelist_page == 2 && m.pagesize == PS,
                "with the contents of its newest legacy header");
        assert!(m.valid(), "converted to a valid new-format record");
    }
    std::mem::forget(db);
}

fn lay_legacy_meta(s: u64, tx: u64, root_page: u64) {
    let d = jv_env::disk();
    unsafe {
        let p = &mut *(d.as_mut_ptr().add((s * PS) as usize) as *mut Page);
        p.id = s;
        p.page_type = Page::TYPE_META;
        p.count = 0;
        p.overflow = 0;
        let m = &mut *(&mut p.ptr as *mut u64 as *mut crate::meta::OldMeta);
        m.meta_page = s as u32;
        m.magic = MAGIC_VALUE;
        m.version = VERSION;
        m.pagesize = PS;
        m.root = BucketMeta { root_page, next_int: 5 };
        m.num_pages = 9;
        m.freelist_page = 2;
        m.tx_id = tx;
        m.hash = m.hash_self();
    }
}

// ---- C15 / C02: a legacy-format file after its first commit under the current code: one slot still carries the
//      legacy header (older state), the other the current-format header the commit wrote (newer state). The
//      newer, current-format header must win, in either slot arrangement -- otherwise every commit to a legacy
//      file is silently lost.
fn mixed_headers_case(legacy_slot: u64) {
    let cur = 1 - legacy_slot;
    lay_legacy_meta(legacy_slot, 6, 3);
    lay_meta(cur, cur, 7, 4, 5, 9, 2, PS);
    let db = mk_dbinner(4, DBFlags { strict_mode: false, mmap_populate: false, direct_writes: false });
    let m = db.meta();
    assert!(m.is_ok());
    if let Ok(m) = m {
        assert!(m.tx_id == 7 && m.root.root_page == 4 && m.meta_page == cur as u32, "JV-C15-MIXED: the state committed by the current code (current-format header) wins over the older legacy header");
    }
    std::mem::forget(db);
}
// @ob props=C15,C02 tier=quick cap=400 fns=DBInner::meta,Page::meta,Meta::valid,Page::old_meta,OldMeta::valid bound="slot 0 legacy header (tx 6), slot 1 current-format header (tx 7), concrete fields" unwind=40
#[kani::proof]
#[kani::unwind(40)]
fn db_meta_legacy_then_current_header() {
    mixed_headers_case(0);
}
// @ob props=C15,C02 tier=quick cap=400 fns=DBInner::meta,Page::meta,Meta::valid,Page::old_meta,OldMeta::valid bound="slot 1 legacy header (tx 6), slot 0 current-format header (tx 7), concrete fields" unwind=40
#[kani::proof]
#[kani::unwind(40)]
fn db_meta_current_then_legacy_header() {
    mixed_headers_case(1);
}
