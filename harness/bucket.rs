// Harnesses mounted as child module `jv` of src/bucket.rs.
// Obligations: C15 (bucket header encoding), C06-Ob1 (read-only guards of every Bucket mutator),
// C01-Ob4 / C07 (bucket-level single steps on small hand-laid trees).
use super::*;

/// accessor for harnesses in other modules: nothing was materialised or marked dirty
pub(crate) fn is_clean(b: &InnerBucket) -> bool {
    !b.dirty && b.nodes.len() == 0 && b.buckets.len() == 0 && b.page_node_ids.len() == 0
}

// ---- C15: the 16-byte bucket header value: root page then counter, little endian, both directions
// @ob props=C15,C01 tier=quick cap=200 fns=BucketMeta::from<&[u8]>,BucketMeta::as_ref bound="all 16 bytes symbolic, any alignment offset 0..8 of the source slice" unwind=17
#[kani::proof]
#[kani::unwind(17)]
fn bucket_meta_codec() {
    let raw: [u8; 24] = kani::any();
    let off: usize = kani::any();
    kani::assume(off < 8);
    let m: BucketMeta = (&raw[off..off + 16]).into();
    let mut a = [0u8; 8];
    let mut b = [0u8; 8];
    let mut i = 0;
    while i < 8 {
        a[i] = raw[off + i];
        b[i] = raw[off + 8 + i];
        i += 1;
    }
    assert!(m.root_page == u64::from_le_bytes(a), "root page = first 8 bytes, little endian");
    assert!(m.next_int == u64::from_le_bytes(b), "counter = next 8 bytes, little endian");
    let back: &[u8] = m.as_ref();
    assert!(back.len() == 16 && META_SIZE == 16);
    let mut i = 0;
    while i < 16 {
        assert!(back[i] == raw[off + i], "as_ref is the inverse");
        i += 1;
    }
}

fn ro_bucket<'b>(pages: Pages) -> Bucket<'b, 'b> {
    let inner = InnerBucket::from_meta(BucketMeta { root_page: 3, next_int: 0 }, pages);
    Bucket {
        inner: Rc::new(RefCell::new(inner)),
        freelist: Rc::new(RefCell::new(TxFreelist::new(crate::freelist::jv::mk_meta(256, 4, 7), crate::freelist::Freelist::new()))),
        writable: false,
        _phantom: PhantomData,
    }
}

// ---- C06-Ob1: every mutating Bucket method on a read-only handle fails with ReadOnlyTx before touching anything
// @ob props=C06 tier=quick cap=300 fns=Bucket::put,Bucket::delete,Bucket::create_bucket,Bucket::get_or_create_bucket,Bucket::delete_bucket bound="read-only bucket handle; keys / names / values of 1 symbolic byte" unwind=5
#[kani::proof]
#[kani::unwind(5)]
fn bucket_readonly_guards() {
    let buf = [0u64; 128];
    let map = memmap2::Mmap::from_raw(buf.as_ptr() as *const u8, 1024);
    let b = ro_bucket(Pages::new(jv_env::Arc::new(map), 256));
    let k: [u8; 1] = kani::any();
    let v: [u8; 1] = kani::any();
    let r = b.put(k, v);
    assert!(matches!(r, Err(Error::ReadOnlyTx)));
    std::mem::forget(r);
    let r = b.delete(k);
    assert!(matches!(r, Err(Error::ReadOnlyTx)));
    std::mem::forget(r);
    let r = b.create_bucket(k);
    assert!(matches!(r, Err(Error::ReadOnlyTx)));
    std::mem::forget(r);
    let r = b.get_or_create_bucket(k);
    assert!(matches!(r, Err(Error::ReadOnlyTx)));
    std::mem::forget(r);
    let r = b.delete_bucket(k);
    assert!(matches!(r, Err(Error::ReadOnlyTx)));
    std::mem::forget(r);
    assert!(is_clean(&b.inner.borrow()), "nothing was materialised or marked dirty");
    assert!(b.inner.borrow().meta.next_int == 0);
    assert!(b.freelist.borrow().pages.len() == 0);
    std::mem::forget(b);
}
