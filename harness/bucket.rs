// Harnesses mounted as child module `jv` of src/bucket.rs.
// Obligations: C15 (bucket header encoding), C06-Ob1 (read-only guards of every Bucket mutator),
// C01-Ob4 / C07 (bucket-level single steps on small hand-laid trees).
use super::*;

/// accessor for harnesses in other modules: nothing was materialised or marked dirty
pub(crate) fn is_clean(b: &InnerBucket) -> bool {
    !b.dirty && b.nodes.len() == 0 && b.buckets.len() == 0 && b.page_node_ids.len() == 0
}

// ---- C15: the 16-byte bucket header value: root page then counter, little endian, both directions
// @ob props=C15,C01 tier=quick cap=200 fns=BucketMeta::from<&[u8]>,BucketMeta::as_ref bound="all 16 bytes symbolic, any alignment offset 0..8 of the source slice" unwind=17
#[kani::proof]
#[kani::unwind(17)]
fn bucket_meta_codec() {
    let raw: [u8; 24] = kani::any();
    let off: usize = kani::any();
    kani::assume(off < 8);
    let m: BucketMeta = (&raw[off..off + 16]).into();
    let mut a = [0u8; 8];
    let mut b = [0u8; 8];
    let mut i = 0;
    while i < 8 {
        a[i] = raw[off + i];
        b[i] = raw[off + 8 + i];
        i += 1;
    }
    assert!(m.root_page == u64::from_le_bytes(a), "root page = first 8 bytes, little endian");
    assert!(m.next_int == u64::from_le_bytes(b), "counter = next 8 bytes, little endian");
    let back: &[u8] = m.as_ref();
    assert!(back.len() == 16 && META_SIZE == 16);
    let mut i = 0;
    while i < 16 {
        assert!(back[i] == raw[off + i], "as_ref is the inverse");
        i += 1;
    }
}

fn ro_bucket<'b>(pages: Pages) -> Bucket<'b, 'b> {
    let inner = InnerBucket::from_meta(BucketMeta { root_page: 3, next_int: 0 }, pages);
    Bucket {
        inner: Rc::new(RefCell::new(inner)),
        freelist: Rc::new(RefCell::new(TxFreelist::new(crate::freelist::jv::mk_meta(256, 4, 7), crate::freelist::Freelist::new()))),
        writable: false,
        _phantom: PhantomData,
    }
}

// ---- C06-Ob1: every mutating Bucket method on a read-only handle fails with ReadOnlyTx before touching anything
// @ob props=C06 tier=quick cap=300 fns=Bucket::put,Bucket::delete,Bucket::create_bucket,Bucket::get_or_create_bucket,Bucket::delete_bucket bound="read-only bucket handle; keys / names / values of 1 symbolic byte" unwind=5
#[kani::proof]
#[kani::unwind(5)]
fn bucket_readonly_guards() {
    let buf = [0u64; 128];
    let map = memmap2::Mmap::from_raw(buf.as_ptr() as *const u8, 1024);
    let b = ro_bucket(Pages::new(jv_env::Arc::new(map), 256));
    let k: [u8; 1] = kani::any();
    let v: [u8; 1] = kani::any();
    let r = b.put(k, v);
    assert!(matches!(r, Err(Error::ReadOnlyTx)));
    std::mem::forget(r);
    let r = b.delete(k);
    assert!(matches!(r, Err(Error::ReadOnlyTx)));
    std::mem::forget(r);
    let r = b.create_bucket(k);
    assert!(matches!(r, Err(Error::ReadOnlyTx)));
    std::mem::forget(r);
    let r = b.get_or_create_bucket(k);
    assert!(matches!(r, Err(Error::ReadOnlyTx)));
    std::mem::forget(r);
    let r = b.delete_bucket(k);
    assert!(matches!(r, Err(Error::ReadOnlyTx)));
    std::mem::forget(r);
    assert!(is_clean(&b.inner.borrow()), "nothing was materialised or marked dirty");
    assert!(b.inner.borrow().meta.next_int == 0);
    assert!(b.freelist.borrow().pages.len() == 0);
    std::mem::forget(b);
}

use crate::cursor::jv::{bucket_value, mk_bucket, put_branch_page, put_leaf_page, Ent};

fn pending_has_once(p: &Vec<u64>, page: u64) -> bool {
    let mut n = 0;
    let mut i = 0;
    while i < p.len() {
        if p[i] == page {
            n += 1;
        }
        i += 1;
    }
    n == 1
}

// ---- C05-Ob6: bucket deletion frees every page run of the bucket exactly once (incl. overflow runs)
// @ob props=C05,C10,C01 tier=quick cap=900 mem=16 fns=InnerBucket::delete_bucket,InnerBucket::get_bucket,InnerBucket::bucket_getter,TxFreelist::free,search,InnerBucket::node,Node::delete bound="root leaf with one bucket entry (name 1 symbolic byte) whose root is a leaf run of 3 pages (overflow 2) holding one 2-byte kv; tx id 7" unwind=20
#[kani::proof]
#[kani::unwind(20)]
fn bucket_delete_frees_overflow_run() {
    let name: [u8; 1] = kani::any();
    let bv = bucket_value(4, 1);
    put_leaf_page(3, 0, &[Ent { t: 1, k: &name, v: &bv }]);
    let k: [u8; 2] = kani::any();
    put_leaf_page(4, 2, &[Ent { t: 0, k: &k, v: &[9] }]);
    let b = mk_bucket(3, true);
    let r = b.delete_bucket(name);
    assert!(r.is_ok());
    std::mem::forget(r);
    {
        let tf = b.freelist.borrow();
        let p = crate::freelist::jv::pending_of(&tf.inner, 7);
        assert!(p.is_some());
        if let Some(p) = p {
            assert!(p.len() == 3, "the whole run (head + overflow pages) is freed, once");
            assert!(pending_has_once(p, 4) && pending_has_once(p, 5) && pending_has_once(p, 6));
        }
        assert!(crate::freelist::jv::n_free(&tf.inner) == 0);
    }
    {
        let ib = b.inner.borrow();
        assert!(ib.dirty, "the parent is dirty");
        assert!(ib.buckets.len() == 0, "the deleted bucket is forgotten");
        assert!(ib.nodes.len() == 1 && ib.nodes[0].borrow().data.len() == 0, "its entry is removed from the parent's leaf");
    }
    let again = b.get_bucket(name);
    assert!(matches!(again, Err(Error::BucketMissing)), "and it can no longer be found");
    std::mem::forget(again);
    std::mem::forget(b);
}

// ---- C05-Ob6: a bucket with a branch root, two leaves (one with an overflow page) and a nested bucket
// @ob props=C05,C10 tier=quick cap=1200 mem=16 fns=InnerBucket::delete_bucket,TxFreelist::free,Page::branch_elements,Page::leaf_elements,BucketMeta::from bound="deleted bucket: branch root 4 over leaf 5 (overflow 1) and leaf 7, leaf 7 holds a nested bucket rooted at leaf 8; key bytes symbolic" unwind=20
#[kani::proof]
#[kani::unwind(20)]
fn bucket_delete_walks_tree() {
    let name: [u8; 1] = kani::any();
    let bv = bucket_value(4, 3);
    put_leaf_page(3, 0, &[Ent { t: 1, k: &name, v: &bv }]);
    let ka: [u8; 1] = kani::any();
    let kb: [u8; 1] = kani::any();
    kani::assume(ka[0] < kb[0]);
    put_branch_page(4, 0, &[(&ka, 5), (&kb, 7)]);
    put_leaf_page(5, 1, &[Ent { t: 0, k: &ka, v: &[1] }]);
    let nv = bucket_value(8, 0);
    put_leaf_page(7, 0, &[Ent { t: 1, k: &kb, v: &nv }]);
    put_leaf_page(8, 0, &[]);
    let b = mk_bucket(3, true);
    let r = b.delete_bucket(name);
    assert!(r.is_ok());
    std::mem::forget(r);
    {
        let tf = b.freelist.borrow();
        let p = crate::freelist::jv::pending_of(&tf.inner, 7);
        assert!(p.is_some());
        if let Some(p) = p {
            assert!(p.len() == 5, "every reachable run is freed exactly once: 4, 5+6, 7, 8");
            assert!(pending_has_once(p, 4) && pending_has_once(p, 5) && pending_has_once(p, 6) && pending_has_once(p, 7) && pending_has_once(p, 8));
        }
    }
    std::mem::forget(b);
}

use crate::cursor::jv::tree_single_leaf;

fn val_of(l: &Option<Leaf>) -> Option<u8> {
    match l {
        Some(Leaf::Kv(_, v)) => {
            let s: &[u8] = v.as_ref();
            assert!(s.len() == 1);
            Some(s[0])
        }
        Some(_) => Some(255),
        None => None,
    }
}

// ---- C01-Ob4 / C07: point lookup on a committed leaf
// @ob props=C01,C07 tier=quick cap=600 fns=InnerBucket::get,search,PageNode::index,PageNode::val,InnerBucket::page_node bound="root leaf page with 3 sorted symbolic 2-byte keys (values 7,8,9); lookup key symbolic" unwind=5
#[kani::proof]
#[kani::unwind(5)]
fn bucket_get_step() {
    let keys: [[u8; 2]; 3] = kani::any();
    kani::assume(keys[0] < keys[1] && keys[1] < keys[2]);
    tree_single_leaf(&keys, 3);
    let b = mk_bucket(3, false);
    let k: [u8; 2] = kani::any();
    let got = b.inner.borrow_mut().get(k);
    let expect = if k == keys[0] { Some(7) } else if k == keys[1] { Some(8) } else if k == keys[2] { Some(9) } else { None };
    assert!(val_of(&got) == expect, "get returns the stored value, or nothing for an absent key");
    assert!(is_clean(&b.inner.borrow()), "a lookup materialises nothing");
    kani::cover!(expect == Some(9));
    kani::cover!(expect.is_none() && k > keys[2]);
    std::mem::forget(got);
    std::mem::forget(b);
}

// ---- C01-Ob4 / C07: put on a committed leaf: insert or overwrite, counter semantics, read-your-write
// @ob props=C01,C07 tier=quick cap=900 mem=16 fns=InnerBucket::put,InnerBucket::put_leaf,InnerBucket::node,Node::from_page,Node::insert_data,InnerBucket::get bound="root leaf page with 2 sorted symbolic 2-byte keys; put key symbolic 2 bytes, value 1 symbolic byte; then 3 lookups" unwind=5
#[kani::proof]
#[kani::unwind(5)]
fn bucket_put_step() {
    let k2: [[u8; 2]; 2] = kani::any();
    kani::assume(k2[0] < k2[1]);
    let keys = [k2[0], k2[1], [0, 0]];
    tree_single_leaf(&keys, 2);
    let b = mk_bucket(3, true);
    let k: [u8; 2] = kani::any();
    let v: [u8; 1] = kani::any();
    let hit = k == k2[0] || k == k2[1];
    let r = b.inner.borrow_mut().put(k, v);
    assert!(r.is_ok());
    if let Ok(old) = &r {
        match old {
            Some((_, ov)) => {
                let s: &[u8] = ov.as_ref();
                assert!(hit && s.len() == 1 && s[0] == if k == k2[0] { 7 } else { 8 }, "overwriting returns the previous value");
            }
            None => assert!(!hit, "a new key returns nothing"),
        }
    }
    std::mem::forget(r);
    assert!(b.inner.borrow().meta.next_int == if hit { 0 } else { 1 }, "the insertion counter is bumped for a new key only");
    assert!(b.inner.borrow().dirty);
    // read your own write, and the other entries are untouched
    let g = b.inner.borrow_mut().get(k);
    assert!(val_of(&g) == Some(v[0]), "the transaction reads its own put");
    std::mem::forget(g);
    let g0 = b.inner.borrow_mut().get(k2[0]);
    assert!(val_of(&g0) == Some(if k == k2[0] { v[0] } else { 7 }));
    std::mem::forget(g0);
    let g1 = b.inner.borrow_mut().get(k2[1]);
    assert!(val_of(&g1) == Some(if k == k2[1] { v[0] } else { 8 }));
    std::mem::forget(g1);
    kani::cover!(hit);
    kani::cover!(!hit && k < k2[0]);
    kani::cover!(!hit && k > k2[1]);
    std::mem::forget(b);
}

// ---- C01-Ob4 / C07: delete on a committed leaf
// @ob props=C01,C07 tier=quick cap=900 mem=16 fns=InnerBucket::delete,InnerBucket::node,Node::from_page,Node::delete,InnerBucket::get bound="root leaf page with 3 sorted symbolic 2-byte keys; delete key symbolic; then lookups" unwind=5
#[kani::proof]
#[kani::unwind(5)]
fn bucket_delete_step() {
    let keys: [[u8; 2]; 3] = kani::any();
    kani::assume(keys[0] < keys[1] && keys[1] < keys[2]);
    tree_single_leaf(&keys, 3);
    let b = mk_bucket(3, true);
    let k: [u8; 2] = kani::any();
    let idx = if k == keys[0] { 0 } else if k == keys[1] { 1 } else if k == keys[2] { 2 } else { 3 };
    let r = b.inner.borrow_mut().delete(k);
    if idx == 3 {
        assert!(matches!(r, Err(Error::KeyValueMissing)), "deleting an absent key reports KeyValueMissing");
        assert!(is_clean(&b.inner.borrow()), "and changes nothing");
    } else {
        assert!(r.is_ok());
        if let Ok((_, ov)) = &r {
            let s: &[u8] = ov.as_ref();
            assert!(s.len() == 1 && s[0] == 7 + idx as u8, "delete returns the removed pair");
        }
        assert!(b.inner.borrow().dirty);
    }
    std::mem::forget(r);
    assert!(b.inner.borrow().meta.next_int == 0, "deleting never changes the insertion counter");
    let g = b.inner.borrow_mut().get(k);
    assert!(g.is_none(), "the deleted key is gone for the transaction's own reads");
    std::mem::forget(g);
    let other = if idx == 0 { 1 } else { 0 };
    let g = b.inner.borrow_mut().get(keys[other]);
    assert!(val_of(&g) == Some(7 + other as u8), "other entries are untouched");
    std::mem::forget(g);
    kani::cover!(idx == 1);
    kani::cover!(idx == 3);
    std::mem::forget(b);
}

// ---- C01-Ob4 / C06-Ob4: bucket lookups / creations that fail change nothing; a creation bumps the counter once
// @ob props=C01,C06,C07 tier=quick cap=900 mem=16 fns=InnerBucket::get_bucket,InnerBucket::create_bucket,InnerBucket::get_or_create_bucket,InnerBucket::bucket_getter,InnerBucket::put,InnerBucket::new_child bound="root leaf page with one kv entry and one bucket entry (1-byte names, symbolic); probe name symbolic 1 byte" unwind=5
#[kani::proof]
#[kani::unwind(5)]
fn bucket_getter_steps() {
    let kvn: [u8; 1] = kani::any();
    let bn: [u8; 1] = kani::any();
    kani::assume(kvn[0] < bn[0]);
    let bv = bucket_value(5, 0);
    put_leaf_page(3, 0, &[Ent { t: 0, k: &kvn, v: &[7] }, Ent { t: 1, k: &bn, v: &bv }]);
    put_leaf_page(5, 0, &[]);
    let b = mk_bucket(3, true);
    let name: [u8; 1] = kani::any();
    let is_kv = name == kvn;
    let is_b = name == bn;
    // 1. get_bucket
    let r = b.inner.borrow_mut().get_bucket(name);
    if is_b {
        assert!(r.is_ok(), "an existing bucket is found");
    } else if is_kv {
        assert!(matches!(r, Err(Error::IncompatibleValue)), "a key/value pair is not a bucket");
    } else {
        assert!(matches!(r, Err(Error::BucketMissing)), "a missing bucket is reported as such");
    }
    std::mem::forget(r);
    assert!(b.inner.borrow().meta.next_int == 0 && !b.inner.borrow().dirty && b.inner.borrow().nodes.len() == 0,
            "a lookup, successful or not, changes neither the counter nor the tree");
    // 2. put over a bucket name is refused and changes nothing
    if is_b {
        let p = b.inner.borrow_mut().put(name, [1u8]);
        assert!(matches!(p, Err(Error::IncompatibleValue)), "a bucket cannot be overwritten by a value");
        std::mem::forget(p);
        assert!(b.inner.borrow().meta.next_int == 0 && !b.inner.borrow().dirty, "a refused put changes nothing");
    }
    // 3. create_bucket
    let c = b.inner.borrow_mut().create_bucket(name);
    if is_b {
        assert!(matches!(c, Err(Error::BucketExists)));
    } else if is_kv {
        assert!(matches!(c, Err(Error::IncompatibleValue)));
    } else {
        assert!(c.is_ok(), "a new bucket can be created");
    }
    std::mem::forget(c);
    let created = !is_b && !is_kv;
    assert!(b.inner.borrow().meta.next_int == created as u64, "the counter is bumped exactly when a bucket entry is added");
    assert!(b.inner.borrow().dirty == created, "a failed creation changes nothing");
    // 4. the transaction sees its own creation
    let again = b.inner.borrow_mut().get_bucket(name);
    assert!(again.is_ok() == (is_b || created));
    std::mem::forget(again);
    kani::cover!(is_b);
    kani::cover!(is_kv);
    kani::cover!(created && name[0] > bn[0]);
    std::mem::forget(b);
}
