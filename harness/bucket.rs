// Harnesses mounted as child module `jv` of src/bucket.rs.
// Obligations: C15 (bucket header encoding), C06-Ob1 (read-only guards of every Bucket mutator),
// C01-Ob4 / C07 (bucket-level single steps on small hand-laid trees).
use super::*;

/// accessor for harnesses in other modules: nothing was materialised or marked dirty
pub(crate) fn is_clean(b: &InnerBucket) -> bool {
    !b.dirty && b.nodes.len() == 0 && b.buckets.len() == 0 && b.page_node_ids.len() == 0
}

// ---- C15: the 16-byte bucket header value: root page then counter, little endian, both directions
// @ob props=C15,C01 tier=quick cap=200 fns=BucketMeta::from<&[u8]>,BucketMeta::as_ref bound="all 16 bytes symbolic, any alignment offset 0..8 of the source slice" unwind=17
#[kani::proof]
#[kani::unwind(17)]
fn bucket_meta_codec() {
    let raw: [u8; 24] = kani::any();
    let off: usize = kani::any();
    kani::assume(off < 8);
    let m: BucketMeta = (&raw[off..off + 16]).into();
    let mut a = [0u8; 8];
    let mut b = [0u8; 8];
    let mut i = 0;
    while i < 8 {
        a[i] = raw[off + i];
        b[i] = raw[off + 8 + i];
        i += 1;
    }
    assert!(m.root_page == u64::from_le_bytes(a), "root page = first 8 bytes, little endian");
    assert!(m.next_int == u64::from_le_bytes(b), "counter = next 8 bytes, little endian");
    let back: &[u8] = m.as_ref();
    assert!(back.len() == 16 && META_SIZE == 16);
    let mut i = 0;
    while i < 16 {
        assert!(back[i] == raw[off + i], "as_ref is the inverse");
        i += 1;
    }
}

fn ro_bucket<'b>(pages: Pages) -> Bucket<'b, 'b> {
    let inner = InnerBucket::from_meta(BucketMeta { root_page: 3, next_int: 0 }, pages);
    Bucket {
        inner: Rc::new(RefCell::new(inner)),
        freelist: Rc::new(RefCell::new(TxFreelist::new(crate::freelist::jv::mk_meta(256, 4, 7), crate::freelist::Freelist::new()))),
        writable: false,
        _phantom: PhantomData,
    }
}

// ---- C06-Ob1: every mutating Bucket method on a read-only handle fails with ReadOnlyTx before touching anything
// @ob props=C06 tier=quick cap=300 fns=Bucket::put,Bucket::delete,Bucket::create_bucket,Bucket::get_or_create_bucket,Bucket::delete_bucket bound="read-only bucket handle; keys / names / values of 1 symbolic byte" unwind=5
#[kani::proof]
#[kani::unwind(5)]
fn bucket_readonly_guards() {
    let buf = [0u64; 128];
    let map = memmap2::Mmap::from_raw(buf.as_ptr() as *const u8, 1024);
    let b = ro_bucket(Pages::new(jv_env::Arc::new(map), 256));
    let k: [u8; 1] = kani::any();
    let v: [u8; 1] = kani::any();
    let r = b.put(k, v);
    assert!(matches!(r, Err(Error::ReadOnlyTx)));
    std::mem::forget(r);
    let r = b.delete(k);
    assert!(matches!(r, Err(Error::ReadOnlyTx)));
    std::mem::forget(r);
    let r = b.create_bucket(k);
    assert!(matches!(r, Err(Error::ReadOnlyTx)));
    std::mem::forget(r);
    let r = b.get_or_create_bucket(k);
    assert!(matches!(r, Err(Error::ReadOnlyTx)));
    std::mem::forget(r);
    let r = b.delete_bucket(k);
    assert!(matches!(r, Err(Error::ReadOnlyTx)));
    std::mem::forget(r);
    assert!(is_clean(&b.inner.borrow()), "nothing was materialised or marked dirty");
    assert!(b.inner.borrow().meta.next_int == 0);
    assert!(b.freelist.borrow().pages.len() == 0);
    std::mem::forget(b);
}

use crate::cursor::jv::{bucket_value, mk_bucket, put_branch_page, put_leaf_page, Ent};

fn pending_has_once(p: &Vec<u64>, page: u64) -> bool {
    let mut n = 0;
    let mut i = 0;
    while i < p.len() {
        if p[i] == page {
            n += 1;
        }
        i += 1;
    }
    n == 1
}

// ---- C05-Ob6: bucket deletion frees every page run of the bucket exactly once (incl. overflow runs).
// The bucket handle is already open in the transaction (as after tx.get_bucket): its header is then a plain value.
// (A header decoded from page bytes goes through BucketMeta::from, whose alignment trick computes an offset from
//  the ADDRESS of a stack buffer; CBMC cannot fold that, the root page id stays symbolic for the symbolic
//  execution and every page access below it forks: 1.8 M steps, out of memory.)
fn open_handle(b: &Bucket, name: &'static [u8], root_page: u64) {
    let mut ib = b.inner.borrow_mut();
    let pages = ib.pages.clone();
    ib.buckets.insert(Bytes::Slice(name), Rc::new(RefCell::new(InnerBucket::from_meta(BucketMeta { root_page, next_int: 1 }, pages))));
}

// @ob props=C05,C10,C01 tier=quick cap=1200 mem=10 fns=InnerBucket::delete_bucket,InnerBucket::get_bucket,TxFreelist::free,search,InnerBucket::node,Node::delete bound="concrete tree, no symbolic input (one execution): root leaf with one bucket entry, handle already open, whose root is a leaf run of 3 pages (overflow 2); tx id 7" unwind=5
#[kani::proof]
#[kani::unwind(5)]
fn bucket_delete_frees_overflow_run() {
    static NAME: [u8; 1] = [b'b'];
    let bv = bucket_value(4, 1);
    put_leaf_page(3, 0, &[Ent { t: 1, k: &NAME, v: &bv }]);
    let k: [u8; 2] = [1, 2];
    put_leaf_page(4, 2, &[Ent { t: 0, k: &k, v: &[9] }]);
    let b = mk_bucket(3, true);
    open_handle(&b, &NAME, 4);
    let r = b.delete_bucket(NAME);
    assert!(r.is_ok());
    std::mem::forget(r);
    {
        let tf = b.freelist.borrow();
        let p = crate::freelist::jv::pending_of(&tf.inner, 7);
        assert!(p.is_some());
        if let Some(p) = p {
            assert!(p.len() == 3, "the whole run (head + overflow pages) is freed, once");
            assert!(pending_has_once(p, 4) && pending_has_once(p, 5) && pending_has_once(p, 6));
        }
        assert!(crate::freelist::jv::n_free(&tf.inner) == 0);
    }
    {
        let ib = b.inner.borrow();
        assert!(ib.dirty, "the parent is dirty");
        assert!(ib.buckets.len() == 0, "the deleted bucket is forgotten");
        assert!(ib.nodes.len() == 1 && ib.nodes[0].borrow().data.len() == 0, "its entry is removed from the parent's leaf");
    }
    std::mem::forget(b);
}

// ---- C05-Ob6: a bucket with a branch root over two leaves, one of them with an overflow page
// @ob props=C05,C10 tier=quick cap=1200 mem=10 fns=InnerBucket::delete_bucket,TxFreelist::free,Page::branch_elements,Page::leaf_elements bound="concrete tree, no symbolic input (one execution): deleted bucket (handle open) = branch root 4 over leaf 5 (overflow 1) and leaf 7" unwind=5
#[kani::proof]
#[kani::unwind(5)]
fn bucket_delete_walks_tree() {
    static NAME: [u8; 1] = [b'b'];
    let bv = bucket_value(4, 3);
    put_leaf_page(3, 0, &[Ent { t: 1, k: &NAME, v: &bv }]);
    let ka: [u8; 1] = [3];
    let kb: [u8; 1] = [9];
    put_branch_page(4, 0, &[(&ka, 5), (&kb, 7)]);
    put_leaf_page(5, 1, &[Ent { t: 0, k: &ka, v: &[1] }]);
    put_leaf_page(7, 0, &[Ent { t: 0, k: &kb, v: &[2] }]);
    let b = mk_bucket(3, true);
    open_handle(&b, &NAME, 4);
    let r = b.delete_bucket(NAME);
    assert!(r.is_ok());
    std::mem::forget(r);
    {
        let tf = b.freelist.borrow();
        let p = crate::freelist::jv::pending_of(&tf.inner, 7);
        assert!(p.is_some());
        if let Some(p) = p {
            assert!(p.len() == 4, "every reachable run is freed exactly once: 4, 5+6, 7");
            assert!(pending_has_once(p, 4) && pending_has_once(p, 5) && pending_has_once(p, 6) && pending_has_once(p, 7));
        }
    }
    std::mem::forget(b);
}

use crate::cursor::jv::tree_single_leaf;

fn val_of(l: &Option<Leaf>) -> Option<u8> {
    match l {
        Some(Leaf::Kv(_, v)) => {
            let s: &[u8] = v.as_ref();
            assert!(s.len() == 1);
            Some(s[0])
        }
        Some(_) => Some(255),
        None => None,
    }
}

// ---- C01-Ob4 / C07: point lookup on a committed leaf
// @ob props=C01,C07 tier=quick cap=600 fns=InnerBucket::get,search,PageNode::index,PageNode::val,InnerBucket::page_node bound="root leaf page with 3 sorted symbolic 2-byte keys (values 7,8,9); lookup key symbolic" unwind=5
#[kani::proof]
#[kani::unwind(5)]
fn bucket_get_step() {
    let keys: [[u8; 2]; 3] = kani::any();
    kani::assume(keys[0] < keys[1] && keys[1] < keys[2]);
    tree_single_leaf(&keys, 3);
    let b = mk_bucket(3, false);
    let k: [u8; 2] = kani::any();
    let got = b.inner.borrow_mut().get(k);
    let expect = if k == keys[0] { Some(7) } else if k == keys[1] { Some(8) } else if k == keys[2] { Some(9) } else { None };
    assert!(val_of(&got) == expect, "get returns the stored value, or nothing for an absent key");
    assert!(is_clean(&b.inner.borrow()), "a lookup materialises nothing");
    kani::cover!(expect == Some(9));
    kani::cover!(expect.is_none() && k > keys[2]);
    std::mem::forget(got);
    std::mem::forget(b);
}

// ---- C01-Ob4 / C07: put on a committed leaf: insert or overwrite, counter semantics, read-your-write.
// One harness per position of the key relative to the two committed keys (a symbolic position makes the
// materialised node's index symbolic for every later access: 1.2 M symex steps, out of memory).
fn put_case(pos: u8) {
    // pos: 0 = below both keys, 1 = equal to the first, 2 = between, 3 = equal to the second, 4 = above both
    let k2: [[u8; 2]; 2] = kani::any();
    kani::assume(k2[0] < k2[1]);
    let keys = [k2[0], k2[1], [0, 0]];
    tree_single_leaf(&keys, 2);
    let b = mk_bucket(3, true);
    let fresh: [u8; 2] = kani::any();
    let k: [u8; 2] = match pos {
        1 => k2[0],
        3 => k2[1],
        _ => fresh,
    };
    let v: [u8; 1] = kani::any();
    match pos {
        0 => kani::assume(k < k2[0]),
        2 => kani::assume(k > k2[0] && k < k2[1]),
        4 => kani::assume(k > k2[1]),
        _ => {}
    }
    let hit = pos == 1 || pos == 3;
    let r = b.inner.borrow_mut().put(k, v);
    assert!(r.is_ok());
    if let Ok(old) = &r {
        match old {
            Some((_, ov)) => {
                let s: &[u8] = ov.as_ref();
                assert!(hit && s.len() == 1 && s[0] == if pos == 1 { 7 } else { 8 }, "overwriting returns the previous value");
            }
            None => assert!(!hit, "a new key returns nothing"),
        }
    }
    std::mem::forget(r);
    assert!(b.inner.borrow().meta.next_int == if hit { 0 } else { 1 }, "the insertion counter is bumped for a new key only");
    assert!(b.inner.borrow().dirty);
    // inspect the materialised leaf directly (a second bucket operation after a data-dependent one doubles the
    // symbolic state: the infeasible "other" outcome of the first is only pruned by the SAT solver)
    {
        let ib = b.inner.borrow();
        assert!(ib.nodes.len() == 1);
        let n = ib.nodes[0].borrow();
        let l = match &n.data {
            NodeData::Leaves(l) => l,
            _ => panic!("leaf expected"),
        };
        assert!(l.len() == if hit { 2 } else { 3 }, "an existing key is replaced, a new key adds one entry");
        let at = match pos {
            0 => 0,
            1 => 0,
            2 => 1,
            3 => 1,
            _ => 2,
        };
        assert!(l[at].key() == &k[..] && l[at].value() == &v[..] && l[at].is_kv(), "the entry sits at its sorted position with the new value");
        let first = if pos == 0 { 1 } else { 0 };
        if pos != 1 {
            assert!(l[first].key() == &k2[0][..] && l[first].value() == &[7u8][..], "other entries are untouched");
        }
    }
    std::mem::forget(b);
}

macro_rules! put_harness {
    ($name:ident, $pos:expr) => {
        #[kani::proof]
        #[kani::unwind(5)]
        fn $name() {
            put_case($pos);
        }
    };
}
// @ob props=C01,C07 tier=thorough cap=900 mem=8 fns=InnerBucket::put,InnerBucket::put_leaf,InnerBucket::node,Node::from_page,Node::insert_data,InnerBucket::get bound="root leaf page with 2 sorted symbolic 2-byte keys; put of a new symbolic key BELOW both, symbolic value; then the leaf is inspected" unwind=5
put_harness!(bucket_put_new_below, 0);
// @ob props=C01,C07 tier=quick cap=700 mem=8 fns=InnerBucket::put,InnerBucket::put_leaf,InnerBucket::node,Node::from_page,Node::insert_data,InnerBucket::get bound="same leaf; put OVER the first key" unwind=5
put_harness!(bucket_put_over_first, 1);
// @ob props=C01,C07 tier=thorough cap=900 mem=8 fns=InnerBucket::put,InnerBucket::put_leaf,InnerBucket::node,Node::from_page,Node::insert_data,InnerBucket::get bound="same leaf; put of a new symbolic key BETWEEN the two" unwind=5
put_harness!(bucket_put_new_between, 2);
// @ob props=C01,C07 tier=thorough cap=900 mem=8 fns=InnerBucket::put,InnerBucket::put_leaf,InnerBucket::node,Node::from_page,Node::insert_data,InnerBucket::get bound="same leaf; put OVER the second key" unwind=5
put_harness!(bucket_put_over_second, 3);
// @ob props=C01,C07 tier=thorough cap=900 mem=8 fns=InnerBucket::put,InnerBucket::put_leaf,InnerBucket::node,Node::from_page,Node::insert_data,InnerBucket::get bound="same leaf; put of a new symbolic key ABOVE both" unwind=5
put_harness!(bucket_put_new_above, 4);

// ---- C01-Ob4 / C07: delete on a committed leaf
fn delete_case(which: u8) {
    let k2: [[u8; 2]; 2] = kani::any();
    kani::assume(k2[0] < k2[1]);
    tree_single_leaf(&[k2[0], k2[1], [0, 0]], 2);
    let b = mk_bucket(3, true);
    let fresh: [u8; 2] = kani::any();
    let k = match which {
        0 => k2[0],
        1 => k2[1],
        _ => fresh,
    };
    if which == 2 {
        kani::assume(k != k2[0] && k != k2[1]);
    }
    let r = b.inner.borrow_mut().delete(k);
    if which == 2 {
        assert!(matches!(r, Err(Error::KeyValueMissing)), "deleting an absent key reports KeyValueMissing");
        assert!(is_clean(&b.inner.borrow()), "and changes nothing");
    } else {
        assert!(r.is_ok());
        if let Ok((_, ov)) = &r {
            let s: &[u8] = ov.as_ref();
            assert!(s.len() == 1 && s[0] == 7 + which, "delete returns the removed pair");
        }
        assert!(b.inner.borrow().dirty);
        assert!(b.inner.borrow().nodes.len() == 1 && b.inner.borrow().nodes[0].borrow().data.len() == 1);
    }
    std::mem::forget(r);
    assert!(b.inner.borrow().meta.next_int == 0, "deleting never changes the insertion counter");
    if which != 2 {
        let ib = b.inner.borrow();
        let n = ib.nodes[0].borrow();
        let l = match &n.data {
            NodeData::Leaves(l) => l,
            _ => panic!("leaf expected"),
        };
        let other = if which == 0 { 1 } else { 0 };
        assert!(l.len() == 1 && l[0].key() == &k2[other][..] && l[0].value() == &[7u8 + other as u8][..], "exactly the deleted entry is gone");
    }
    std::mem::forget(b);
}
macro_rules! delete_harness {
    ($name:ident, $which:expr) => {
        #[kani::proof]
        #[kani::unwind(5)]
        fn $name() {
            delete_case($which);
        }
    };
}
// @ob props=C01,C07 tier=quick cap=700 mem=6 fns=InnerBucket::delete,InnerBucket::node,Node::from_page,Node::delete,InnerBucket::get bound="root leaf page with 2 sorted symbolic 2-byte keys; delete of the FIRST key; then a lookup" unwind=5
delete_harness!(bucket_delete_first, 0);
// @ob props=C01,C07 tier=thorough cap=900 fns=InnerBucket::delete,InnerBucket::node,Node::from_page,Node::delete,InnerBucket::get bound="same leaf; delete of the SECOND key" unwind=5
delete_harness!(bucket_delete_second, 1);
// @ob props=C01,C07,C06 tier=quick cap=900 fns=InnerBucket::delete,InnerBucket::get bound="same leaf; delete of an ABSENT symbolic key" unwind=5
delete_harness!(bucket_delete_absent, 2);

// ---- C01-Ob4 / C06-Ob4: bucket lookups / creations / puts / deletes that fail return the documented error and
//      change nothing (no node is materialised, counter untouched). One call per harness.
fn failing_call(op: u8, target: u8) {
    // leaf: one kv entry (name kvn) and one bucket entry (name bn); target: 0 = the kv name, 1 = the bucket name, 2 = a missing name
    let kvn: [u8; 1] = kani::any();
    let bn: [u8; 1] = kani::any();
    kani::assume(kvn[0] < bn[0]);
    let bv = bucket_value(5, 0);
    put_leaf_page(3, 0, &[Ent { t: 0, k: &kvn, v: &[7] }, Ent { t: 1, k: &bn, v: &bv }]);
    put_leaf_page(5, 0, &[]);
    let b = mk_bucket(3, true);
    let fresh: [u8; 1] = kani::any();
    let name = match target {
        0 => kvn,
        1 => bn,
        _ => fresh,
    };
    if target == 2 {
        kani::assume(name != kvn && name != bn);
    }
    match (op, target) {
        // get_bucket
        (0, 0) => {
            let r = b.inner.borrow_mut().get_bucket(name);
            assert!(matches!(r, Err(Error::IncompatibleValue)), "a key/value pair is not a bucket");
            std::mem::forget(r);
        }
        (0, 1) => {
            let r = b.inner.borrow_mut().get_bucket(name);
            assert!(r.is_ok(), "an existing bucket is found");
            std::mem::forget(r);
        }
        (0, _) => {
            let r = b.inner.borrow_mut().get_bucket(name);
            assert!(matches!(r, Err(Error::BucketMissing)), "a missing bucket is reported as such");
            std::mem::forget(r);
        }
        // put over a bucket name
        (1, _) => {
            let r = b.inner.borrow_mut().put(name, [1u8]);
            assert!(matches!(r, Err(Error::IncompatibleValue)), "a bucket cannot be overwritten by a value");
            std::mem::forget(r);
        }
        // delete (as key/value)
        (2, 1) => {
            let r = b.inner.borrow_mut().delete(name);
            assert!(matches!(r, Err(Error::IncompatibleValue)), "a bucket cannot be deleted as a key/value pair");
            std::mem::forget(r);
        }
        (2, _) => {
            let r = b.inner.borrow_mut().delete(name);
            assert!(matches!(r, Err(Error::KeyValueMissing)));
            std::mem::forget(r);
        }
        // create_bucket over an existing name
        (_, 0) => {
            let r = b.inner.borrow_mut().create_bucket(name);
            assert!(matches!(r, Err(Error::IncompatibleValue)));
            std::mem::forget(r);
        }
        (_, _) => {
            let r = b.inner.borrow_mut().create_bucket(name);
            assert!(matches!(r, Err(Error::BucketExists)));
            std::mem::forget(r);
        }
    }
    {
        let ib = b.inner.borrow();
        assert!(ib.meta.next_int == 0 && !ib.dirty && ib.nodes.len() == 0, "the call changed neither the counter nor the tree");
    }
    std::mem::forget(b);
}
macro_rules! failing_harness {
    ($name:ident, $op:expr, $target:expr) => {
        #[kani::proof]
        #[kani::unwind(5)]
        fn $name() {
            failing_call($op, $target);
        }
    };
}
// @ob props=C01,C06 tier=quick cap=900 fns=InnerBucket::get_bucket,InnerBucket::bucket_getter bound="leaf with one kv and one bucket entry (symbolic 1-byte names); get_bucket of the kv name" unwind=5
failing_harness!(bucket_get_bucket_on_kv, 0, 0);
// @ob props=C01,C06 tier=quick cap=900 fns=InnerBucket::get_bucket,InnerBucket::bucket_getter,InnerBucket::from_meta bound="same leaf; get_bucket of the bucket name (succeeds, changes nothing)" unwind=5
failing_harness!(bucket_get_bucket_found, 0, 1);
// @ob props=C01,C06 tier=quick cap=900 fns=InnerBucket::get_bucket,InnerBucket::bucket_getter bound="same leaf; get_bucket of a missing symbolic name" unwind=5
failing_harness!(bucket_get_bucket_missing, 0, 2);
// @ob props=C01,C06 tier=quick cap=900 fns=InnerBucket::put,InnerBucket::put_leaf bound="same leaf; put over the bucket name" unwind=5
failing_harness!(bucket_put_over_bucket_refused, 1, 1);
// @ob props=C01,C06 tier=quick cap=900 fns=InnerBucket::delete bound="same leaf; delete (as key/value) of the bucket name" unwind=5
failing_harness!(bucket_delete_bucket_as_kv_refused, 2, 1);
// @ob props=C01,C06 tier=quick cap=900 fns=InnerBucket::create_bucket,InnerBucket::bucket_getter bound="same leaf; create_bucket over the kv name" unwind=5
failing_harness!(bucket_create_over_kv_refused, 3, 0);
// @ob props=C01,C06 tier=quick cap=900 fns=InnerBucket::create_bucket,InnerBucket::bucket_getter bound="same leaf; create_bucket over the existing bucket name" unwind=5
failing_harness!(bucket_create_existing_refused, 3, 1);

// ---- C01-Ob4 / C07: creating a bucket bumps the counter once and the transaction sees it
// @ob props=C01,C07 tier=quick cap=700 mem=8 fns=InnerBucket::create_bucket,InnerBucket::get_or_create_bucket,InnerBucket::bucket_getter,InnerBucket::new_child,InnerBucket::node,Node::from_page,Node::insert_data bound="root leaf page with one kv entry (1-byte name, symbolic); new bucket name symbolic 1 byte, different" unwind=5
#[kani::proof]
#[kani::unwind(5)]
fn bucket_create_step() {
    let kvn: [u8; 1] = kani::any();
    put_leaf_page(3, 0, &[Ent { t: 0, k: &kvn, v: &[7] }]);
    let b = mk_bucket(3, true);
    let name: [u8; 1] = kani::any();
    kani::assume(name != kvn);
    let c = b.inner.borrow_mut().create_bucket(name);
    assert!(c.is_ok(), "a new bucket can be created");
    std::mem::forget(c);
    {
    let ib = b.inner.borrow();
    assert!(ib.meta.next_int == 1, "the counter is bumped exactly once");
    assert!(ib.dirty);
    assert!(ib.buckets.len() == 1, "the new bucket is known to the transaction");
    assert!(ib.nodes.len() == 1);
    let n = ib.nodes[0].borrow();
    match &n.data {
        NodeData::Leaves(l) => {
            assert!(l.len() == 2, "its entry was added to the parent's leaf");
            let at = if name[0] < kvn[0] { 0 } else { 1 };
            assert!(!l[at].is_kv() && l[at].key() == &name[..], "as a bucket entry at its sorted position");
            assert!(l[1 - at].is_kv() && l[1 - at].key() == &kvn[..]);
        }
        _ => panic!("leaf expected"),
    }
    }
    std::mem::forget(b);
}



use crate::cursor::jv::tree_two_leaves;

fn rd64p(base: *const u8, off: usize) -> u64 {
    let mut b = [0u8; 8];
    let mut i = 0;
    while i < 8 {
        b[i] = unsafe { *base.add(off + i) };
        i += 1;
    }
    u64::from_le_bytes(b)
}

// ---- C01-Ob5 / C05: commit-time rebalance + spill of a two-leaf bucket after the transaction emptied exactly the
//      FIRST leaf: no panic, the surviving entries end up in well-formed dirty pages, the freed runs are pending
// @ob props=C01,C05 tier=parked cap=1800 mem=12 fns=InnerBucket::rebalance,InnerBucket::merge_nodes,InnerBucket::spill,Node::spill,Node::split,Node::write,Page::write_node,InnerBucket::delete bound="concrete tree, no symbolic input (one execution): branch root 3 over leaves 4 {k1,k2} and 5 {k3,k4}; delete k1 and k2; rebalance + spill" unwind=9
#[kani::proof]
#[kani::unwind(9)]
fn bucket_commit_after_emptying_first_leaf() {
    let a = [[1u8, 0], [2, 0]];
    let c = [[3u8, 0], [4, 0]];
    tree_two_leaves(&a, &c);
    let b = mk_bucket(3, true);
    let r = b.delete(a[0]);
    assert!(r.is_ok());
    std::mem::forget(r);
    let r = b.delete(a[1]);
    assert!(r.is_ok());
    std::mem::forget(r);
    let mut fl = b.freelist.borrow_mut();
    let mut ib = b.inner.borrow_mut();
    let rr = ib.rebalance(&mut fl);
    assert!(rr.is_ok());
    std::mem::forget(rr);
    let sp = ib.spill(&mut fl);
    assert!(sp.is_ok(), "JV-C01-EMPTY-LEAF-COMMIT: committing after emptying one of two leaves succeeds");
    if let Ok(meta) = &sp {
        // the untouched second leaf (page 5) is promoted to be the root as it is on disk; the old root (3) and the
        // emptied leaf (4) are given back, once each; nothing had to be written
        assert!(meta.root_page == 5, "the surviving leaf page becomes the bucket's root");
        assert!(meta.next_int == 0);
        assert!(fl.pages.len() == 0);
        let p = crate::freelist::jv::pending_of(&fl.inner, 7);
        assert!(p.is_some());
        if let Some(p) = p {
            assert!(p.len() == 2 && pending_has_once(p, 3) && pending_has_once(p, 4), "old root and emptied leaf are freed exactly once");
        }
    }
    std::mem::forget(sp);
}

// ---- C07: the cursor over a tree whose FIRST leaf has been emptied by the transaction (state constructed directly:
//      an empty materialised leaf node shadows page 4, as after deleting both of its keys) delivers the second
//      leaf's entries. (Going through the two real deletes first does not finish symbolic execution: see
//      harness/cursor.rs; this is the same scan from the same state, built by hand.)
// @ob props=C07,C08 tier=quick cap=900 mem=8 fns=Cursor::next,Cursor::on_empty_leaf,Cursor::seek_first,Cursor::current,InnerBucket::page_node,PageNode::val,PageNode::len,PageNode::leaf bound="branch page 3 over leaf pages 4 and 5 (2 symbolic keys each); an empty leaf node shadows page 4; three calls of next()" unwind=5
#[kani::proof]
#[kani::unwind(5)]
fn cursor_skips_emptied_leaf_node() {
    let a: [[u8; 2]; 2] = kani::any();
    let c: [[u8; 2]; 2] = kani::any();
    kani::assume(a[0] < a[1] && a[1] < c[0] && c[0] < c[1]);
    tree_two_leaves(&a, &c);
    let b = mk_bucket(3, true);
    {
        let mut ib = b.inner.borrow_mut();
        let mut n = Node::new(0, Page::TYPE_LEAF, 256);
        n.page_id = 4;
        n.num_pages = 1;
        ib.nodes.push(Rc::new(RefCell::new(n)));
        ib.page_node_ids.insert(4, 0);
        ib.dirty = true;
    }
    let mut cur = b.cursor();
    let d0 = cur.next();
    let d1 = cur.next();
    let d2 = cur.next();
    let k = |d: &Option<Data>| -> Option<[u8; 2]> {
        match d {
            Some(x) => Some([x.key()[0], x.key()[1]]),
            None => None,
        }
    };
    assert!(k(&d0) == Some(c[0]), "JV-C07-EMPTY-LEAF: the scan skips the emptied leaf and delivers the entries of the next one");
    assert!(k(&d1) == Some(c[1]));
    assert!(d2.is_none());
    std::mem::forget(d0);
    std::mem::forget(d1);
    std::mem::forget(d2);
    std::mem::forget(cur);
    std::mem::forget(b);
}

// ---- C07 / C08: seek into the emptied first leaf, then iterate: the entries of the next leaf follow
// @ob props=C07,C08 tier=quick cap=900 mem=8 fns=Cursor::seek,search,Cursor::next,Cursor::on_empty_leaf,Cursor::current,InnerBucket::page_node bound="concrete scenario (one execution): branch page 3 over leaf pages 4 {10,20} and 5 {30,40}; an empty leaf node shadows page 4; seek(15); three calls of next()" unwind=5
#[kani::proof]
#[kani::unwind(5)]
fn cursor_seek_into_emptied_leaf_node() {
    // concrete keys (a symbolic seek key forks the descent and every later step: no result in 15 min)
    let a: [[u8; 2]; 2] = [[10, 0], [20, 0]];
    let c: [[u8; 2]; 2] = [[30, 0], [40, 0]];
    tree_two_leaves(&a, &c);
    let b = mk_bucket(3, true);
    {
        let mut ib = b.inner.borrow_mut();
        let mut n = Node::new(0, Page::TYPE_LEAF, 256);
        n.page_id = 4;
        n.num_pages = 1;
        ib.nodes.push(Rc::new(RefCell::new(n)));
        ib.page_node_ids.insert(4, 0);
        ib.dirty = true;
    }
    let s: [u8; 2] = [15, 0]; // routed into the first (emptied) leaf
    let mut cur = b.cursor();
    let exists = cur.seek(s);
    assert!(!exists, "nothing is left below the second leaf");
    let d0 = cur.next();
    let d1 = cur.next();
    let d2 = cur.next();
    let k = |d: &Option<Data>| -> Option<[u8; 2]> {
        match d {
            Some(x) => Some([x.key()[0], x.key()[1]]),
            None => None,
        }
    };
    assert!(k(&d0) == Some(c[0]), "after a seek into an emptied leaf every later entry still follows");
    assert!(k(&d1) == Some(c[1]));
    assert!(d2.is_none());
    std::mem::forget(d0);
    std::mem::forget(d1);
    std::mem::forget(d2);
    std::mem::forget(cur);
    std::mem::forget(b);
}

// ---- C01-Ob5 / C05-Ob5: ONE run of InnerBucket::merge_nodes (the commit-time rebalance) from a state materialised
//      through the real InnerBucket::node / Node::from_page / Node::delete: an underfull leaf is merged into its
//      sibling, its page run is given back once, the parent loses the entry, a root left with one child collapses
//      (its whole run given back, the child promoted), and every surviving materialised node stays attached.
fn k2(x: &[u8]) -> [u8; 2] {
    assert!(x.len() == 2);
    [x[0], x[1]]
}

fn leaf_is(n: &Node, exp: &[[u8; 2]]) -> bool {
    match &n.data {
        NodeData::Leaves(l) => {
            let mut ok = l.len() == exp.len();
            let mut i = 0;
            while i < exp.len() {
                ok = ok && i < l.len() && l[i].is_kv() && k2(l[i].key()) == exp[i];
                i += 1;
            }
            ok
        }
        _ => false,
    }
}

fn branches_are(n: &Node, exp: &[([u8; 2], u64)]) -> bool {
    match &n.data {
        NodeData::Branches(b) => {
            let mut ok = b.len() == exp.len();
            let mut i = 0;
            while i < exp.len() {
                ok = ok && i < b.len() && k2(b[i].key()) == exp[i].0 && b[i].page == exp[i].1;
                i += 1;
            }
            ok
        }
        _ => false,
    }
}

/// root branch page 3 (run of 1 + `ov` pages) over leaf pages 6 {a0,a1} and 7 {c0,c1}; the transaction has removed
/// all but `keep` entries of leaf `which`; then merge_nodes
fn merge_two_leaf_case(ov: u64, which: usize, keep: usize, symbolic: bool) {
    crate::cursor::jv::word_stores(!symbolic);
    let (a, c): ([[u8; 2]; 2], [[u8; 2]; 2]) = if symbolic { (kani::any(), kani::any()) } else { ([[1, 0], [2, 0]], [[3, 0], [4, 0]]) };
    kani::assume(a[0] < a[1] && a[1] < c[0] && c[0] < c[1]);
    put_leaf_page(6, 0, &[Ent { t: 0, k: &a[0], v: &[7] }, Ent { t: 0, k: &a[1], v: &[8] }]);
    put_leaf_page(7, 0, &[Ent { t: 0, k: &c[0], v: &[9] }, Ent { t: 0, k: &c[1], v: &[10] }]);
    put_branch_page(3, ov, &[(&a[0], 6), (&c[0], 7)]);
    let b = mk_bucket(3, true);
    let mut ib = b.inner.borrow_mut();
    let pg = 6 + which as u64;
    ib.page_parents.insert(pg, 3);
    {
        let n = ib.node(PageNodeID::Page(pg), None);
        let mut n = n.borrow_mut();
        if keep < 2 {
            std::mem::forget(n.delete(1));
        }
        if keep < 1 {
            std::mem::forget(n.delete(0));
        }
    }
    ib.dirty = true;
    assert!(ib.nodes.len() == 2, "the leaf and (through it) the root are materialised");
    let mut fl = b.freelist.borrow_mut();
    ib.merge_nodes(&mut fl);
    // the emptied / underfull leaf is gone: deleted, its page given back
    let other = 7 - which as u64;
    assert!(ib.nodes[0].borrow().deleted && ib.nodes[0].borrow().page_id == 0);
    // the root was left with a single child: it collapses, the child page becomes the root
    assert!(ib.nodes[1].borrow().deleted, "a root branch left with one child is dissolved");
    assert!(ib.meta.root_page == other, "JV-C01-COLLAPSE: the remaining child becomes the bucket's root");
    assert!(matches!(ib.root, PageNodeID::Page(p) if p == other));
    if keep == 0 {
        assert!(ib.nodes.len() == 2, "nothing to move: the sibling is not materialised");
    } else {
        assert!(ib.nodes.len() == 3, "the sibling was materialised to take the entries");
        let s = ib.nodes[2].borrow();
        assert!(!s.deleted && s.page_id == other);
        let exp = if which == 0 { [a[0], c[0], c[1]] } else { [a[0], a[1], c[0]] };
        assert!(leaf_is(&s, &exp), "JV-C01-MERGE: the sibling holds its own entries plus the moved one, in key order");
        assert!(ib.page_node_ids.get(&other) == Some(&2));
    }
    // every page of both dissolved runs is pending under this transaction, once; nothing else; nothing allocated
    let p = crate::freelist::jv::pending_of(&fl.inner, 7);
    assert!(p.is_some());
    if let Some(p) = p {
        assert!(p.len() == 2 + ov as usize, "JV-C05-MERGE-FREE: exactly the pages of the dissolved leaf and of the dissolved root run are freed");
        assert!(pending_has_once(p, pg) && pending_has_once(p, 3));
        if ov == 1 {
            assert!(pending_has_once(p, 4), "the overflow page of the root run is freed too");
        }
    }
    assert!(fl.pages.len() == 0);
    std::mem::forget(fl);
    std::mem::forget(ib);
}

// @ob props=C01,C05,C10 tier=parked cap=3000 mem=12 fns=InnerBucket::merge_nodes,InnerBucket::node,Node::from_page,Node::needs_merging,NodeData::merge,Node::free_page,TxFreelist::free,Node::insert_child,Node::delete bound="branch root (1 page) over two leaf pages with 2 entries each, concrete keys (one execution, all checks on); the FIRST leaf is left with one entry; one run of merge_nodes" unwind=5
#[kani::proof]
#[kani::unwind(5)]
fn bucket_merge_first_leaf_into_right() {
    merge_two_leaf_case(0, 0, 1, false);
}
// @ob props=C01,C05,C10 tier=parked cap=3000 mem=12 fns=InnerBucket::merge_nodes,InnerBucket::node,Node::from_page,Node::needs_merging,NodeData::merge,Node::free_page,TxFreelist::free,Node::insert_child,Node::delete bound="same tree; the SECOND leaf is left with one entry (left sibling takes it); one run of merge_nodes" unwind=5
#[kani::proof]
#[kani::unwind(5)]
fn bucket_merge_second_leaf_into_left() {
    merge_two_leaf_case(0, 1, 1, false);
}
// @ob props=C05,C10 tier=quick cap=700 mem=6 fns=InnerBucket::merge_nodes,InnerBucket::node,Node::from_page,Node::needs_merging,Node::free_page,TxFreelist::free bound="same tree with 4 symbolic ascending 2-byte keys, root run of TWO pages (overflow 1); the first leaf is emptied completely; one run of merge_nodes" unwind=5
#[kani::proof]
#[kani::unwind(5)]
fn bucket_merge_emptied_leaf_multi_page_root() {
    merge_two_leaf_case(1, 0, 0, true);
}

/// three levels: root 3 over inner branches 4 {6,7} and 5 {8,9}; leaves 6..9 with two keys each; the transaction
/// removed one entry of leaf 6; merge_nodes must fold leaf 6 into 7, then inner 4 into inner 5 TOGETHER WITH the
/// materialised (modified) leaf node below it, then collapse the root
fn merge_three_level_case(symbolic: bool) {
    crate::cursor::jv::word_stores(!symbolic);
    let k: [[u8; 2]; 8] = if symbolic { kani::any() } else { [[1, 0], [2, 0], [3, 0], [4, 0], [5, 0], [6, 0], [7, 0], [8, 0]] };
    kani::assume(k[0] < k[1] && k[1] < k[2] && k[2] < k[3] && k[3] < k[4] && k[4] < k[5] && k[5] < k[6] && k[6] < k[7]);
    put_leaf_page(6, 0, &[Ent { t: 0, k: &k[0], v: &[7] }, Ent { t: 0, k: &k[1], v: &[7] }]);
    put_leaf_page(7, 0, &[Ent { t: 0, k: &k[2], v: &[7] }, Ent { t: 0, k: &k[3], v: &[7] }]);
    put_leaf_page(8, 0, &[Ent { t: 0, k: &k[4], v: &[7] }, Ent { t: 0, k: &k[5], v: &[7] }]);
    put_leaf_page(9, 0, &[Ent { t: 0, k: &k[6], v: &[7] }, Ent { t: 0, k: &k[7], v: &[7] }]);
    put_branch_page(4, 0, &[(&k[0], 6), (&k[2], 7)]);
    put_branch_page(5, 0, &[(&k[4], 8), (&k[6], 9)]);
    put_branch_page(3, 0, &[(&k[0], 4), (&k[4], 5)]);
    let b = mk_bucket(3, true);
    let mut ib = b.inner.borrow_mut();
    ib.page_parents.insert(6, 4);
    ib.page_parents.insert(4, 3);
    {
        let n = ib.node(PageNodeID::Page(6), None);
        let mut n = n.borrow_mut();
        std::mem::forget(n.delete(1));
    }
    ib.dirty = true;
    assert!(ib.nodes.len() == 3, "leaf 6, inner branch 4 and the root are materialised");
    let mut fl = b.freelist.borrow_mut();
    ib.merge_nodes(&mut fl);
    assert!(ib.nodes.len() == 5);
    assert!(ib.nodes[0].borrow().deleted && ib.nodes[1].borrow().deleted && ib.nodes[2].borrow().deleted);
    assert!(ib.meta.root_page == 5, "the surviving inner branch becomes the root");
    {
        let leaf7 = ib.nodes[3].borrow();
        let inner5 = ib.nodes[4].borrow();
        assert!(!leaf7.deleted && leaf7.page_id == 7 && leaf_is(&leaf7, &[k[0], k[2], k[3]]), "leaf 7 took the entry left in leaf 6");
        assert!(!inner5.deleted && inner5.page_id == 5);
        assert!(branches_are(&inner5, &[(k[0], 7), (k[4], 8), (k[6], 9)]), "JV-C05-STALE-SEPARATOR: inner branch 5 took the entry of the dissolved inner branch 4, under the first key leaf 7 now has");
        // the modified leaf node must stay attached to a live node, or the commit would never write it
        assert!(leaf7.parent == Some(4), "JV-C01-MERGE-CHILDREN: a dissolved branch hands its materialised children to the sibling");
        assert!(inner5.children.len() == 1 && inner5.children[0] == 3, "JV-C01-MERGE-CHILDREN: the sibling now owns the modified child node");
    }
    let p = crate::freelist::jv::pending_of(&fl.inner, 7);
    assert!(p.is_some());
    if let Some(p) = p {
        assert!(p.len() == 3 && pending_has_once(p, 6) && pending_has_once(p, 4) && pending_has_once(p, 3), "leaf 6, inner branch 4 and the old root are freed exactly once");
    }
    assert!(fl.pages.len() == 0);
    std::mem::forget(fl);
    std::mem::forget(ib);
}

// @ob props=C01,C05 tier=parked cap=3000 mem=12 fns=InnerBucket::merge_nodes,InnerBucket::node,Node::from_page,Node::needs_merging,NodeData::merge,Node::free_page,TxFreelist::free,Node::insert_child bound="three-level tree (root, 2 inner branches, 4 leaves of 2 entries), concrete keys (one execution, all checks on); leaf 6 left with one entry; one run of merge_nodes" unwind=6
#[kani::proof]
#[kani::unwind(6)]
fn bucket_merge_three_levels_concrete() {
    merge_three_level_case(false);
}

/// mirror image: the transaction removed one entry of leaf 8, the FIRST leaf of the root's SECOND inner branch 5:
/// leaf 8 folds RIGHT into leaf 9, inner 5 (one branch left) folds LEFT into inner 4, the root collapses onto 4.
/// Leaf 9 now starts with a smaller key than the separator it is known by; until the spill corrects it, lookups
/// (InnerBucket::spill's put_leaf of every touched nested bucket runs BEFORE the node tree is spilled) must still
/// find the moved entry.
fn merge_three_level_right_then_left() {
    crate::cursor::jv::word_stores(true);
    let k: [[u8; 2]; 8] = [[1, 0], [2, 0], [3, 0], [4, 0], [5, 0], [6, 0], [7, 0], [8, 0]];
    put_leaf_page(6, 0, &[Ent { t: 0, k: &k[0], v: &[7] }, Ent { t: 0, k: &k[1], v: &[7] }]);
    put_leaf_page(7, 0, &[Ent { t: 0, k: &k[2], v: &[7] }, Ent { t: 0, k: &k[3], v: &[7] }]);
    put_leaf_page(8, 0, &[Ent { t: 0, k: &k[4], v: &[7] }, Ent { t: 0, k: &k[5], v: &[7] }]);
    put_leaf_page(9, 0, &[Ent { t: 0, k: &k[6], v: &[7] }, Ent { t: 0, k: &k[7], v: &[7] }]);
    put_branch_page(4, 0, &[(&k[0], 6), (&k[2], 7)]);
    put_branch_page(5, 0, &[(&k[4], 8), (&k[6], 9)]);
    put_branch_page(3, 0, &[(&k[0], 4), (&k[4], 5)]);
    let b = mk_bucket(3, true);
    let mut ib = b.inner.borrow_mut();
    ib.page_parents.insert(8, 5);
    ib.page_parents.insert(5, 3);
    {
        let n = ib.node(PageNodeID::Page(8), None);
        let mut n = n.borrow_mut();
        std::mem::forget(n.delete(1));
    }
    ib.dirty = true;
    let mut fl = b.freelist.borrow_mut();
    ib.merge_nodes(&mut fl);
    assert!(ib.meta.root_page == 4, "the surviving inner branch becomes the root");
    assert!(ib.nodes.len() == 5);
    {
        let leaf9 = ib.nodes[3].borrow();
        let inner4 = ib.nodes[4].borrow();
        assert!(!leaf9.deleted && leaf9.page_id == 9 && leaf_is(&leaf9, &[k[4], k[6], k[7]]), "leaf 9 took the entry left in leaf 8");
        assert!(!inner4.deleted && inner4.page_id == 4 && inner4.children.len() == 1 && inner4.children[0] == 3 && leaf9.parent == Some(4));
        match &inner4.data {
            NodeData::Branches(br) => assert!(br.len() == 3 && br[0].page == 6 && br[1].page == 7 && br[2].page == 9),
            _ => assert!(false),
        }
    }
    let p = crate::freelist::jv::pending_of(&fl.inner, 7);
    assert!(p.is_some());
    if let Some(p) = p {
        assert!(p.len() == 3 && pending_has_once(p, 8) && pending_has_once(p, 5) && pending_has_once(p, 3));
    }
    std::mem::forget(fl);
    // the moved entry is still found by a lookup from the (new) root
    let root = ib.meta.root_page;
    let (exists, stack) = search(&k[4][..], root, &mut ib);
    assert!(exists, "JV-C05-STALE-SEPARATOR: after the rebalance a lookup of a moved entry descends by a stale separator and misses it");
    std::mem::forget(stack);
    std::mem::forget(ib);
}
// @ob props=C05,C01 tier=parked cap=3000 mem=12 fns=InnerBucket::merge_nodes,InnerBucket::node,Node::from_page,NodeData::merge,search,PageNode::index,InnerBucket::page_node bound="three-level tree (root, 2 inner branches, 4 leaves of 2 entries), concrete keys (one execution, all checks on); leaf 8 (first leaf of the second inner branch) left with one entry; one run of merge_nodes, then a lookup of the moved key" unwind=6
#[kani::proof]
#[kani::unwind(6)]
fn bucket_merge_three_levels_right_then_left() {
    merge_three_level_right_then_left();
}

/// every entry below the root's second inner branch 5 is deleted in one transaction (both of its leaves emptied):
/// the whole inner branch has to go; no EMPTY node may stay attached below the root (Node::spill sorts a node's
/// children by their first key: an empty child makes the commit panic)
fn merge_three_level_emptied_inner() {
    crate::cursor::jv::word_stores(true);
    let k: [[u8; 2]; 8] = [[1, 0], [2, 0], [3, 0], [4, 0], [5, 0], [6, 0], [7, 0], [8, 0]];
    put_leaf_page(6, 0, &[Ent { t: 0, k: &k[0], v: &[7] }, Ent { t: 0, k: &k[1], v: &[7] }]);
    put_leaf_page(7, 0, &[Ent { t: 0, k: &k[2], v: &[7] }, Ent { t: 0, k: &k[3], v: &[7] }]);
    put_leaf_page(8, 0, &[Ent { t: 0, k: &k[4], v: &[7] }, Ent { t: 0, k: &k[5], v: &[7] }]);
    put_leaf_page(9, 0, &[Ent { t: 0, k: &k[6], v: &[7] }, Ent { t: 0, k: &k[7], v: &[7] }]);
    put_branch_page(4, 0, &[(&k[0], 6), (&k[2], 7)]);
    put_branch_page(5, 0, &[(&k[4], 8), (&k[6], 9)]);
    put_branch_page(3, 0, &[(&k[0], 4), (&k[4], 5)]);
    let b = mk_bucket(3, true);
    let mut ib = b.inner.borrow_mut();
    ib.page_parents.insert(8, 5);
    ib.page_parents.insert(9, 5);
    ib.page_parents.insert(5, 3);
    {
        let n = ib.node(PageNodeID::Page(8), None);
        let mut n = n.borrow_mut();
        std::mem::forget(n.delete(1));
        std::mem::forget(n.delete(0));
    }
    {
        let n = ib.node(PageNodeID::Page(9), None);
        let mut n = n.borrow_mut();
        std::mem::forget(n.delete(1));
        std::mem::forget(n.delete(0));
    }
    ib.dirty = true;
    assert!(ib.nodes.len() == 4, "leaf 8, inner 5, root 3 and leaf 9 are materialised");
    let mut fl = b.freelist.borrow_mut();
    ib.merge_nodes(&mut fl);
    assert!(ib.meta.root_page == 4, "the untouched inner branch 4 becomes the root");
    let mut i = 0;
    while i < 6 {
        if i < ib.nodes.len() {
            let n = ib.nodes[i].borrow();
            assert!(n.deleted || n.data.len() > 0 || n.page_id == ib.meta.root_page, "JV-C01-EMPTY-NODE: no empty node stays attached below the root after the rebalance");
        }
        i += 1;
    }
    let p = crate::freelist::jv::pending_of(&fl.inner, 7);
    assert!(p.is_some());
    if let Some(p) = p {
        assert!(p.len() == 4 && pending_has_once(p, 8) && pending_has_once(p, 9) && pending_has_once(p, 5) && pending_has_once(p, 3), "JV-C05-MERGE-FREE: both emptied leaves, their inner branch and the old root are freed exactly once");
    }
    std::mem::forget(fl);
    std::mem::forget(ib);
}
// @ob props=C01,C05 tier=parked cap=3000 mem=12 fns=InnerBucket::merge_nodes,InnerBucket::node,Node::from_page,Node::needs_merging,Node::free_page,TxFreelist::free bound="three-level tree (root, 2 inner branches, 4 leaves of 2 entries), concrete keys (one execution, all checks on); both leaves of the second inner branch emptied; one run of merge_nodes" unwind=7
#[kani::proof]
#[kani::unwind(7)]
fn bucket_merge_three_levels_emptied_inner() {
    merge_three_level_emptied_inner();
}

// ---- C05-Ob6: a nested bucket is deleted and THEN its ancestor, in one transaction: the ancestor's walk goes over
//      the committed pages, where the nested bucket is still listed; its pages must not be given back a second time
//      (a page twice in the pending list is twice in the committed free list, and DB::check rejects the file)
// @ob props=C05,C10,C06 tier=quick cap=700 mem=8 fns=InnerBucket::delete_bucket,InnerBucket::get_bucket,InnerBucket::bucket_getter,TxFreelist::free,Freelist::free,Page::leaf_elements,search,InnerBucket::node,Node::delete bound="concrete tree (one execution): root leaf 3 with bucket entry P (root 4); leaf 4 with bucket entry C (root 5) and one key/value pair; leaf 5 with one pair, overflow 1; delete C through P's handle, then P; tx id 7; BucketMeta decoding by its proven contract (stub)" unwind=8
#[kani::proof]
#[kani::stub(<crate::bucket::BucketMeta as std::convert::From<&[u8]>>::from, crate::jv_top_stubs::bucket_meta_from_le)]
#[kani::unwind(8)]
fn bucket_delete_nested_then_ancestor_frees_once() {
    static P: [u8; 1] = [b'p'];
    static C: [u8; 1] = [b'c'];
    let pv = bucket_value(4, 1);
    let cv = bucket_value(5, 0);
    put_leaf_page(3, 0, &[Ent { t: 1, k: &P, v: &pv }]);
    put_leaf_page(4, 0, &[Ent { t: 1, k: &C, v: &cv }, Ent { t: 0, k: &[b'x'], v: &[1] }]);
    put_leaf_page(5, 1, &[Ent { t: 0, k: &[b'k'], v: &[2] }]);
    let b = mk_bucket(3, true);
    let p = b.get_bucket(P);
    assert!(p.is_ok());
    if let Ok(p) = &p {
        let r = p.delete_bucket(C);
        assert!(r.is_ok());
        std::mem::forget(r);
    }
    std::mem::forget(p);
    let r = b.delete_bucket(P);
    assert!(r.is_ok());
    std::mem::forget(r);
    let tf = b.freelist.borrow();
    let pend = crate::freelist::jv::pending_of(&tf.inner, 7);
    assert!(pend.is_some());
    if let Some(pend) = pend {
        assert!(pending_has_once(pend, 4) && pending_has_once(pend, 5) && pending_has_once(pend, 6), "JV-C05-DOUBLE-FREE: every page of the deleted subtree is given back exactly once");
        assert!(pend.len() == 3, "JV-C05-DOUBLE-FREE: nothing is given back twice");
    }
    std::mem::forget(tf);
    std::mem::forget(b);
}
