//! Stubs applied to *every* harness (injected by lib/gen.py, enabled with `-Z stubbing`).
//!
//! CBMC models memcpy / memmove as whole-object byte-array updates; on jammdb's page
//! buffers that model dominates everything else (measured: Page::write_node of one entry
//! followed by one field read: 11 s of SAT with the builtin, 0.03 s with these loops).
//! The replacements have the same semantics, expressed as element-wise loops, so they
//! count against the harness's unwind bound (a copy of n elements needs unwind > n; the
//! unwinding assertion reports a bound that is too small).
#[inline(always)]
unsafe fn fwd<T>(src: *const T, dst: *mut T, count: usize) {
    if std::mem::size_of::<T>() == 1 {
        // byte copies (page images, keys, values): plain dereferences, no per-call precondition checks
        let s = src as *const u8;
        let d = dst as *mut u8;
        let mut i = 0;
        while i < count {
            *d.wrapping_add(i) = *s.wrapping_add(i);
            i += 1;
        }
    } else {
        let mut i = 0;
        while i < count {
            dst.wrapping_add(i).write(src.wrapping_add(i).read());
            i += 1;
        }
    }
}

pub unsafe fn copy_nonoverlapping<T>(src: *const T, dst: *mut T, count: usize) {
    fwd(src, dst, count)
}

/// memmove semantics: correct for overlapping ranges in either direction
pub unsafe fn copy<T>(src: *const T, dst: *mut T, count: usize) {
    if (dst as usize) <= (src as usize) {
        fwd(src, dst, count)
    } else if std::mem::size_of::<T>() == 1 {
        let s = src as *const u8;
        let d = dst as *mut u8;
        let mut i = count;
        while i > 0 {
            i -= 1;
            *d.wrapping_add(i) = *s.wrapping_add(i);
        }
    } else {
        let mut i = count;
        while i > 0 {
            i -= 1;
            dst.wrapping_add(i).write(src.wrapping_add(i).read());
        }
    }
}

/// Switch the checksum model to its cheap fold (see env/fnv); a no-op in the `real` profile,
/// where the real fnv crate is linked.
#[cfg(not(feature = "jv_real"))]
pub fn hash_cheap(on: bool) {
    fnv::jv_set_cheap(on)
}
#[cfg(feature = "jv_real")]
pub fn hash_cheap(_on: bool) {}
