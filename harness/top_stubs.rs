//! Stubs applied to *every* harness (injected by lib/gen.py, enabled with `-Z stubbing`).
//!
//! CBMC models memcpy / memmove as whole-object byte-array updates; on jammdb's page
//! buffers that model dominates everything else (measured: Page::write_node of one entry
//! followed by one field read: 11 s of SAT with the builtin, 0.03 s with these loops).
//! The replacements have the same semantics, expressed as element-wise loops, so they
//! count against the harness's unwind bound (a copy of n elements needs unwind > n; the
//! unwinding assertion reports a bound that is too small).
#[inline(always)]
unsafe fn fwd<T>(src: *const T, dst: *mut T, count: usize) {
    if std::mem::size_of::<T>() == 1 {
        // byte copies (page images, keys, values): plain dereferences, no per-call precondition checks
        let s = src as *const u8;
        let d = dst as *mut u8;
        if count == 16 {
            // the 16-byte bucket header (BucketMeta::from) is copied all over the tree code: loop-free, so that
            // harnesses that only touch bucket entries can keep a small unwind bound
            copy16(s, d);
            return;
        }
        let mut i = 0;
        while i < count {
            *d.wrapping_add(i) = *s.wrapping_add(i);
            i += 1;
        }
    } else {
        let mut i = 0;
        while i < count {
            dst.wrapping_add(i).write(src.wrapping_add(i).read());
            i += 1;
        }
    }
}

#[inline(always)]
unsafe fn copy16(s: *const u8, d: *mut u8) {
    macro_rules! b {
        ($($i:literal)*) => { $( *d.wrapping_add($i) = *s.wrapping_add($i); )* };
    }
    b!(0 1 2 3 4 5 6 7 8 9 10 11 12 13 14 15);
}

pub unsafe fn copy_nonoverlapping<T>(src: *const T, dst: *mut T, count: usize) {
    fwd(src, dst, count)
}

/// memmove semantics: correct for overlapping ranges in either direction
pub unsafe fn copy<T>(src: *const T, dst: *mut T, count: usize) {
    if std::mem::size_of::<T>() == 1 && count == 16 {
        // distinct objects in every use jammdb makes of a 16-byte memmove (stack buffer <- page bytes)
        let mut tmp = [0u8; 16];
        copy16(src as *const u8, tmp.as_mut_ptr());
        copy16(tmp.as_ptr(), dst as *mut u8);
    } else if (dst as usize) <= (src as usize) {
        fwd(src, dst, count)
    } else if std::mem::size_of::<T>() == 1 {
        let s = src as *const u8;
        let d = dst as *mut u8;
        let mut i = count;
        while i > 0 {
            i -= 1;
            *d.wrapping_add(i) = *s.wrapping_add(i);
        }
    } else {
        let mut i = count;
        while i > 0 {
            i -= 1;
            dst.wrapping_add(i).write(src.wrapping_add(i).read());
        }
    }
}

/// Switch the checksum model to its cheap fold (see env/fnv); a no-op in the `real` profile,
/// where the real fnv crate is linked.
#[cfg(not(feature = "jv_real"))]
pub fn hash_cheap(on: bool) {
    fnv::jv_set_cheap(on)
}
#[cfg(feature = "jv_real")]
pub fn hash_cheap(_on: bool) {}

/// `format!` builds error messages (Error::InvalidDB) and panic texts; formatting is never the subject of an
/// obligation and costs minutes of symbolic execution (Debug of a set, integer formatting). Returns "".
pub fn fmt_format(_args: std::fmt::Arguments<'_>) -> String {
    String::new()
}

/// Stand-in for `<BucketMeta as From<&[u8]>>::from` in harnesses that decode nested-bucket headers from page bytes
/// on the way (opt-in per harness: `#[kani::stub(<crate::bucket::BucketMeta as std::convert::From<&[u8]>>::from,
/// crate::jv_top_stubs::bucket_meta_from_le)]`). The real function copies the 16 bytes to an aligned spot of a stack
/// buffer, at an offset computed from the buffer's ADDRESS; symbolic execution cannot fold that offset, the decoded
/// root page id stays symbolic and every page access below it forks. This is the function's contract -- root page
/// then counter, little endian -- which `bucket_meta_codec` proves of the REAL function for every 16-byte input at
/// every alignment of the source slice. (The type parameter mirrors the trait's, Kani requires the counts to match.)
pub fn bucket_meta_from_le<T>(value: &[u8]) -> crate::bucket::BucketMeta {
    assert!(value.len() == 16);
    let a = [value[0], value[1], value[2], value[3], value[4], value[5], value[6], value[7]];
    let b = [value[8], value[9], value[10], value[11], value[12], value[13], value[14], value[15]];
    crate::bucket::BucketMeta { root_page: u64::from_le_bytes(a), next_int: u64::from_le_bytes(b) }
}

/// `copy_nonoverlapping` in 16-byte chunks plus a tail (a 256-byte page = 16 iterations): for harnesses that need a
/// SMALL unwind bound (the bound also limits every recursion, e.g. the drop glue of std::io::Error); opt-in per harness
pub unsafe fn copy_nonoverlapping_chunked<T>(src: *const T, dst: *mut T, count: usize) {
    if std::mem::size_of::<T>() == 1 {
        let s = src as *const u8;
        let d = dst as *mut u8;
        let chunks = count / 16;
        let mut c = 0;
        while c < chunks {
            copy16(s.wrapping_add(16 * c), d.wrapping_add(16 * c));
            c += 1;
        }
        let mut i = 16 * chunks;
        while i < count {
            *d.wrapping_add(i) = *s.wrapping_add(i);
            i += 1;
        }
    } else {
        fwd(src, dst, count)
    }
}
