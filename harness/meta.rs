// Harnesses mounted as child module `jv` of src/meta.rs.
// Obligations: C12-Ob1..Ob3, C15-Ob3.
use super::*;

const FNV_BASIS: u64 = 0xcbf2_9ce4_8422_2325;
const FNV_PRIME: u64 = 0x0000_0100_0000_01b3;

fn any_meta() -> Meta {
    Meta {
        meta_page: kani::any(),
        magic: kani::any(),
        version: kani::any(),
        pagesize: kani::any(),
        root: BucketMeta { root_page: kani::any(), next_int: kani::any() },
        num_pages: kani::any(),
        freelist_page: kani::any(),
        tx_id: kani::any(),
        hash: kani::any(),
    }
}

/// the pinned canonical serialisation: the nine fields, big-endian, in declaration order (60 bytes)
fn canonical(m: &Meta) -> [u8; 60] {
    let mut b = [0u8; 60];
    b[0..4].copy_from_slice(&m.meta_page.to_be_bytes());
    b[4..8].copy_from_slice(&m.magic.to_be_bytes());
    b[8..12].copy_from_slice(&m.version.to_be_bytes());
    b[12..20].copy_from_slice(&m.pagesize.to_be_bytes());
    b[20..28].copy_from_slice(&m.root.root_page.to_be_bytes());
    b[28..36].copy_from_slice(&m.root.next_int.to_be_bytes());
    b[36..44].copy_from_slice(&m.num_pages.to_be_bytes());
    b[44..52].copy_from_slice(&m.freelist_page.to_be_bytes());
    b[52..60].copy_from_slice(&m.tx_id.to_be_bytes());
    b
}

/// the cheap fold of env/fnv (CHEAP mode), started at the FNV offset basis
#[cfg(not(feature = "jv_real"))]
fn fold_ref(bytes: &[u8; 60]) -> u64 {
    let mut h = FNV_BASIS;
    let mut i = 0;
    while i < 60 {
        h = h.rotate_left(7) ^ (bytes[i] as u64);
        i += 1;
    }
    h
}

fn fnv1a_ref(bytes: &[u8; 60]) -> u64 {
    let mut h = FNV_BASIS;
    let mut i = 0;
    while i < 60 {
        h = (h ^ (bytes[i] as u64)).wrapping_mul(FNV_PRIME);
        i += 1;
    }
    h
}

// ---- C12-Ob1: the checksum is FNV-1a-64 over exactly the canonical serialisation; valid() == (hash == that)
// (decided on the byte log of the hasher model: what is hashed, in which order; no reasoning about multiplications)
// @ob props=C12,C15,C02 tier=quick cap=240 fns=Meta::hash_self,Meta::valid bound="all nine header fields and the stored hash fully symbolic" unwind=61
#[cfg(not(feature = "jv_real"))]
#[kani::proof]
#[kani::unwind(61)]
fn meta_hash_covers_canonical() {
    let m = any_meta();
    crate::jv_top_stubs::hash_cheap(true); // compare two checksum computations: see env/fnv
    let log = fnv::jv_log();
    log.on = true;
    log.n = 0;
    let h = m.hash_self();
    log.on = false;
    let c = canonical(&m);
    assert!(log.n == 60, "exactly 60 bytes are hashed");
    let mut i = 0;
    while i < 60 {
        assert!(log.bytes[i] == c[i], "checksum input = the nine fields, big-endian, in declaration order");
        i += 1;
    }
    // the value returned is the hasher's final state over those bytes
    assert!(h == fold_ref(&c), "hash_self returns the hasher's final state over the canonical bytes");
    assert!(m.valid() == (m.hash == h), "a header is valid iff its stored hash equals the checksum");
    kani::cover!(m.valid());
    kani::cover!(!m.valid());
}

// ---- C12-Ob2 (Kani half, REAL fnv crate): one step of the real hasher is h' = (h ^ b) * PRIME, it starts at the
//      offset basis, and multi-byte writes are the byte steps in order
// @ob props=C12 tier=quick cap=300 profile=real fns=fnv::FnvHasher::write,fnv::FnvHasher::default,fnv::FnvHasher::finish bound="any state, any 1-byte and any 4-byte slice (real fnv 1.0.7)" unwind=6
#[cfg(feature = "jv_real")]
#[kani::proof]
#[kani::unwind(6)]
fn fnv_step_matches_formula() {
    let h: u64 = kani::any();
    let b: u8 = kani::any();
    let mut hasher = FnvHasher::with_key(h);
    hasher.write(&[b]);
    assert!(hasher.finish() == (h ^ (b as u64)).wrapping_mul(FNV_PRIME));
    assert!(FnvHasher::default().finish() == FNV_BASIS);
    let w: [u8; 4] = kani::any();
    let mut h4 = FnvHasher::with_key(h);
    h4.write(&w);
    let mut r = h;
    let mut i = 0;
    while i < 4 {
        r = (r ^ (w[i] as u64)).wrapping_mul(FNV_PRIME);
        i += 1;
    }
    assert!(h4.finish() == r, "a multi-byte write is the byte steps in slice order");
}

// ---- C12-Ob3: end-to-end, one damaged byte anywhere in tx_id (the last hashed field) invalidates the header
// @ob props=C12 tier=thorough cap=1200 fns=Meta::hash_self,Meta::valid bound="all fields symbolic, one byte of tx_id xor-ed with any non-zero mask" unwind=9
#[kani::proof]
#[kani::unwind(9)]
fn meta_single_byte_damage_txid() {
    let mut m = any_meta();
    m.hash = m.hash_self();
    let i: usize = kani::any();
    kani::assume(i < 8);
    let x: u8 = kani::any();
    kani::assume(x != 0);
    let mut b = m.tx_id.to_le_bytes();
    b[i] ^= x;
    m.tx_id = u64::from_le_bytes(b);
    assert!(!m.valid(), "a header with one damaged tx_id byte is never trusted");
}

fn any_old_meta() -> OldMeta {
    OldMeta {
        meta_page: kani::any(),
        magic: kani::any(),
        version: kani::any(),
        pagesize: kani::any(),
        root: BucketMeta { root_page: kani::any(), next_int: kani::any() },
        num_pages: kani::any(),
        freelist_page: kani::any(),
        tx_id: kani::any(),
        hash: kani::any(),
    }
}

// ---- C15-Ob3: legacy header: bytes() is the same 60-byte canonical serialisation
// @ob props=C15 tier=quick cap=240 fns=OldMeta::bytes bound="all nine legacy header fields symbolic" unwind=61
#[kani::proof]
#[kani::unwind(61)]
fn oldmeta_bytes_canonical() {
    let o = any_old_meta();
    let b = o.bytes();
    let m = Meta {
        meta_page: o.meta_page,
        magic: o.magic,
        version: o.version,
        pagesize: o.pagesize,
        root: o.root,
        num_pages: o.num_pages,
        freelist_page: o.freelist_page,
        tx_id: o.tx_id,
        hash: 0,
    };
    let c = canonical(&m);
    assert!(b.len() == 60);
    let mut i = 0;
    while i < 60 {
        assert!(b[i] == c[i], "legacy checksum input is the nine fields, big-endian, in order");
        i += 1;
    }
}

// ---- C15-Ob3: From<&OldMeta> copies every field and yields a valid new-format record
// @ob props=C15 tier=quick cap=240 fns=Meta::from<&OldMeta>,Meta::hash_self bound="all legacy fields symbolic" unwind=9
#[kani::proof]
#[kani::unwind(9)]
fn oldmeta_into_meta() {
    crate::jv_top_stubs::hash_cheap(true);
    let o = any_old_meta();
    let m: Meta = (&o).into();
    assert!(m.meta_page == o.meta_page);
    assert!(m.magic == o.magic);
    assert!(m.version == o.version);
    assert!(m.pagesize == o.pagesize);
    assert!(m.root.root_page == o.root.root_page);
    assert!(m.root.next_int == o.root.next_int);
    assert!(m.num_pages == o.num_pages);
    assert!(m.freelist_page == o.freelist_page);
    assert!(m.tx_id == o.tx_id);
    assert!(m.hash == m.hash_self(), "the converted record carries a valid new-format checksum");
}

// ---- C15: struct layouts (repr(C)) pinned: offsets of every header field
// @ob props=C15 tier=quick cap=120 fns=Meta,OldMeta bound="layout constants" unwind=2
#[kani::proof]
fn meta_layout_offsets() {
    let m = any_meta();
    let base = &m as *const Meta as usize;
    assert!(&m.meta_page as *const u32 as usize - base == 0);
    assert!(&m.magic as *const u32 as usize - base == 4);
    assert!(&m.version as *const u32 as usize - base == 8);
    assert!(&m.pagesize as *const u64 as usize - base == 16);
    assert!(&m.root.root_page as *const u64 as usize - base == 24);
    assert!(&m.root.next_int as *const u64 as usize - base == 32);
    assert!(&m.num_pages as *const u64 as usize - base == 40);
    assert!(&m.freelist_page as *const u64 as usize - base == 48);
    assert!(&m.tx_id as *const u64 as usize - base == 56);
    assert!(&m.hash as *const u64 as usize - base == 64);
    assert!(std::mem::size_of::<Meta>() == 72);
    let o = any_old_meta();
    let ob = &o as *const OldMeta as usize;
    assert!(&o.pagesize as *const u64 as usize - ob == 16);
    assert!(&o.tx_id as *const u64 as usize - ob == 56);
    assert!(&o.hash as *const [u8; 32] as usize - ob == 64);
    assert!(std::mem::size_of::<OldMeta>() == 96);
}
