// Harnesses mounted as child module `jv` of src/cursor.rs.
// Obligations: C08-Ob2..Ob5 (cursor scan, seek, range, filters) and C07 (scan through the node overlay)
// on small hand-laid trees: an empty root leaf, one leaf with 3 keys, a branch over two leaves.
// Tree shape and entry counts are concrete; every key byte, seek key and range bound is symbolic.
use super::*;
use crate::bucket::BucketMeta;
use crate::freelist::Freelist;
use crate::page::{Page, Pages};
use crate::page_node::jv::{lay_branch_at, lay_leaf_at};

pub(crate) const PS: usize = 256;
/// 12-page image for the trees below (word typed, see env/bumpalo for why)
pub(crate) static mut TREE: [u64; 12 * PS / 8] = [0; 12 * PS / 8];

pub(crate) fn tree_base() -> *mut u8 {
    unsafe { std::ptr::addr_of_mut!(TREE) as *mut u8 }
}

pub(crate) fn mk_bucket<'b>(root_page: u64, writable: bool) -> Bucket<'b, 'b> {
    let map = memmap2::Mmap::from_raw(tree_base(), 12 * PS);
    let pages = Pages::new(jv_env::Arc::new(map), PS as u64);
    let inner = InnerBucket::from_meta(BucketMeta { root_page, next_int: 0 }, pages);
    Bucket {
        inner: Rc::new(RefCell::new(inner)),
        freelist: Rc::new(RefCell::new(TxFreelist::new(crate::freelist::jv::mk_meta(256, 8, 7), Freelist::new()))),
        writable,
        _phantom: PhantomData,
    }
}

/// page 3 := leaf with the n given keys (values: one byte 7 + i)
pub(crate) fn tree_single_leaf(keys: &[[u8; 2]; 3], n: usize) {
    unsafe {
        lay_leaf_at(tree_base().add(3 * PS), keys, n);
        *(tree_base().add(3 * PS) as *mut u64) = 3;
    }
}

/// page 3 := branch over leaves 4 (keys a[0..2]) and 5 (keys b[0..2]); separators = first keys
pub(crate) fn tree_two_leaves(a: &[[u8; 2]; 2], b: &[[u8; 2]; 2]) {
    unsafe {
        let la = [a[0], a[1], [0, 0]];
        let lb = [b[0], b[1], [0, 0]];
        lay_leaf_at(tree_base().add(4 * PS), &la, 2);
        *(tree_base().add(4 * PS) as *mut u64) = 4;
        lay_leaf_at(tree_base().add(5 * PS), &lb, 2);
        *(tree_base().add(5 * PS) as *mut u64) = 5;
        let seps = [a[0], b[0], [0, 0]];
        lay_branch_at(tree_base().add(3 * PS), &seps, 2);
        // lay_branch_at numbers children 10, 11: point them at pages 4 and 5
        *(tree_base().add(3 * PS + 32) as *mut u64) = 4;
        *(tree_base().add(3 * PS + 32 + 24) as *mut u64) = 5;
        *(tree_base().add(3 * PS) as *mut u64) = 3;
    }
}

fn key_of(d: &Option<Data>) -> Option<[u8; 2]> {
    match d {
        Some(x) => {
            let k = x.key();
            assert!(k.len() == 2);
            Some([k[0], k[1]])
        }
        None => None,
    }
}

// ---- C08-Ob2: an empty bucket: next() is None, and calling it again is harmless
// @ob props=C08,C07 tier=quick cap=300 fns=Cursor::next,Cursor::seek_first,Cursor::current,InnerBucket::page_node,PageNode::len,PageNode::leaf bound="bucket whose root is an empty leaf page; three calls of next()" unwind=5
#[kani::proof]
#[kani::unwind(5)]
fn cursor_empty_bucket_next_again() {
    let keys = [[0u8; 2]; 3];
    tree_single_leaf(&keys, 0);
    let b = mk_bucket(3, false);
    let mut c = b.cursor();
    let x = c.next();
    assert!(x.is_none());
    let y = c.next();
    assert!(y.is_none(), "calling next() after the end is harmless");
    let z = c.next();
    assert!(z.is_none());
    std::mem::forget(c);
    std::mem::forget(b);
}

// ---- C08-Ob2: one leaf: every entry exactly once, ascending, then None, None
// @ob props=C08,C07,C01 tier=quick cap=600 fns=Cursor::next,Cursor::seek_first,Cursor::current,PageNode::val,Leaf::from_leaf,Data::from bound="root leaf page with 3 sorted symbolic 2-byte keys; 5 calls of next()" unwind=5
#[kani::proof]
#[kani::unwind(5)]
fn cursor_scan_single_leaf() {
    let keys: [[u8; 2]; 3] = kani::any();
    kani::assume(keys[0] < keys[1] && keys[1] < keys[2]);
    tree_single_leaf(&keys, 3);
    let b = mk_bucket(3, false);
    let mut c = b.cursor();
    let mut i = 0;
    while i < 3 {
        let d = c.next();
        assert!(key_of(&d) == Some(keys[i]), "entries come out once each, in ascending order");
        if let Some(Data::KeyValue(kv)) = &d {
            assert!(kv.value().len() == 1 && kv.value()[0] == 7 + i as u8);
        } else {
            assert!(false, "key/value entry expected");
        }
        std::mem::forget(d);
        i += 1;
    }
    let e1 = c.next();
    assert!(e1.is_none());
    let e2 = c.next();
    assert!(e2.is_none(), "calling next() after the end is harmless");
    std::mem::forget(c);
    std::mem::forget(b);
}

// ---- C08-Ob2: branch + two leaves: the scan crosses the leaf boundary
// @ob props=C08,C07,C01 tier=quick cap=900 fns=Cursor::next,Cursor::seek_first,Cursor::current,PageNode::index_page,InnerBucket::page_node bound="branch page over two leaf pages with 2 keys each, all 4 keys symbolic and ascending; 6 calls of next()" unwind=5
#[kani::proof]
#[kani::unwind(5)]
fn cursor_scan_two_leaves() {
    let a: [[u8; 2]; 2] = kani::any();
    let b2: [[u8; 2]; 2] = kani::any();
    kani::assume(a[0] < a[1] && a[1] < b2[0] && b2[0] < b2[1]);
    tree_two_leaves(&a, &b2);
    let b = mk_bucket(3, false);
    let mut c = b.cursor();
    let expect = [a[0], a[1], b2[0], b2[1]];
    let mut i = 0;
    while i < 4 {
        let d = c.next();
        assert!(key_of(&d) == Some(expect[i]), "every entry of every leaf, once, in ascending order");
        std::mem::forget(d);
        i += 1;
    }
    let e1 = c.next();
    assert!(e1.is_none());
    let e2 = c.next();
    assert!(e2.is_none());
    std::mem::forget(c);
    std::mem::forget(b);
}

// ---- C08-Ob3: seek on one leaf: reports presence; iteration continues from the key or an immediate neighbour
// @ob props=C08,C07 tier=thorough cap=1200 mem=10 fns=Cursor::seek,search,Cursor::next,Cursor::current,PageNode::index bound="root leaf page with 3 sorted symbolic 2-byte keys; seek key symbolic 2 bytes; then up to 4 calls of next()" unwind=5
#[kani::proof]
#[kani::unwind(5)]
fn cursor_seek_single_leaf() {
    let keys: [[u8; 2]; 3] = kani::any();
    kani::assume(keys[0] < keys[1] && keys[1] < keys[2]);
    tree_single_leaf(&keys, 3);
    let b = mk_bucket(3, false);
    let mut c = b.cursor();
    let s: [u8; 2] = kani::any();
    let exists = c.seek(s);
    let below = (keys[0] < s) as usize + (keys[1] < s) as usize + (keys[2] < s) as usize;
    let hit = keys[0] == s || keys[1] == s || keys[2] == s;
    assert!(exists == hit, "seek reports whether the key exists");
    // first entry delivered after the seek: the key itself if present, else an immediate neighbour
    // (the greatest smaller key, or the smallest key when the seek key is below everything)
    let first = c.next();
    let start = if hit { below } else if below == 0 { 0 } else { below - 1 };
    assert!(key_of(&first) == Some(keys[start]), "iteration starts at the key or at an immediate neighbour");
    std::mem::forget(first);
    // and every later entry follows in order
    let mut i = start + 1;
    while i < 3 {
        let d = c.next();
        assert!(key_of(&d) == Some(keys[i]), "every later entry follows in order");
        std::mem::forget(d);
        i += 1;
    }
    let e = c.next();
    assert!(e.is_none());
    kani::cover!(hit && below == 2);
    kani::cover!(!hit && below == 0);
    kani::cover!(!hit && below == 3);
    std::mem::forget(c);
    std::mem::forget(b);
}

// ---- C08-Ob4: range scans with every kind of bound
pub(crate) struct RB<'a> {
    pub s: Bound<&'a [u8]>,
    pub e: Bound<&'a [u8]>,
}
impl<'a> RangeBounds<&'a [u8]> for RB<'a> {
    fn start_bound(&self) -> Bound<&&'a [u8]> {
        match &self.s {
            Bound::Included(x) => Bound::Included(x),
            Bound::Excluded(x) => Bound::Excluded(x),
            Bound::Unbounded => Bound::Unbounded,
        }
    }
    fn end_bound(&self) -> Bound<&&'a [u8]> {
        match &self.e {
            Bound::Included(x) => Bound::Included(x),
            Bound::Excluded(x) => Bound::Excluded(x),
            Bound::Unbounded => Bound::Unbounded,
        }
    }
}

fn bound_of<'a>(kind: u8, k: &'a [u8; 2]) -> Bound<&'a [u8]> {
    match kind {
        0 => Bound::Included(&k[..]),
        1 => Bound::Excluded(&k[..]),
        _ => Bound::Unbounded,
    }
}

fn in_bounds(k: &[u8; 2], sk: u8, s: &[u8; 2], ek: u8, e: &[u8; 2]) -> bool {
    let lo = match sk {
        0 => k >= s,
        1 => k > s,
        _ => true,
    };
    let hi = match ek {
        0 => k <= e,
        1 => k < e,
        _ => true,
    };
    lo && hi
}

fn range_case(sk: u8, ek: u8) {
    let k2: [[u8; 2]; 2] = kani::any();
    kani::assume(k2[0] < k2[1]);
    let keys = [k2[0], k2[1], [0, 0]];
    tree_single_leaf(&keys, 2);
    let b = mk_bucket(3, false);
    let s: [u8; 2] = kani::any();
    let e: [u8; 2] = kani::any();
    let mut r = b.range(RB { s: bound_of(sk, &s), e: bound_of(ek, &e) });
    // three unconditional calls (conditional calls would fork the cursor state in the harness itself)
    let d0 = r.next();
    let d1 = r.next();
    let d2 = r.next();
    let got = [key_of(&d0), key_of(&d1), key_of(&d2)];
    // expected: the keys within the bounds, in order, then nothing
    let mut exp: [Option<[u8; 2]>; 3] = [None; 3];
    let mut n = 0;
    let mut i = 0;
    while i < 2 {
        if in_bounds(&k2[i], sk, &s, ek, &e) {
            exp[n] = Some(k2[i]);
            n += 1;
        }
        i += 1;
    }
    let mut j = 0;
    while j < 3 {
        assert!(got[j] == exp[j], "a range scan yields exactly the entries within its bounds, in order, and then nothing");
        j += 1;
    }
    if sk != 2 {
        kani::cover!(n == 1 && exp[0] == Some(k2[1]), "opt: only the second key is inside the bounds");
        kani::cover!(k2[1] == s, "opt: the start bound is a present key");
        kani::cover!(s < k2[0], "opt: the start bound is below every key");
    }
    kani::cover!(n == 2);
    std::mem::forget(d0);
    std::mem::forget(d1);
    std::mem::forget(d2);
    std::mem::forget(r);
    std::mem::forget(b);
}

// @ob props=C08 tier=thorough cap=1500 mem=16 fns=Range::next,Cursor::seek,Cursor::next,Cursor::current,Bucket::range bound="root leaf page with 2 sorted symbolic 2-byte keys; three calls of next(); start bound included, end bound included, both bound keys symbolic" unwind=5
#[kani::proof]
#[kani::unwind(5)]
fn range_included_included() {
    range_case(0, 0);
}

// @ob props=C08 tier=thorough cap=1500 mem=16 fns=Range::next,Cursor::seek,Cursor::next,Cursor::current,Bucket::range bound="root leaf page with 2 sorted symbolic 2-byte keys; three calls of next(); start bound included, end bound excluded, both bound keys symbolic" unwind=5
#[kani::proof]
#[kani::unwind(5)]
fn range_included_excluded() {
    range_case(0, 1);
}

// @ob props=C08 tier=quick cap=800 mem=16 fns=Range::next,Cursor::seek,Cursor::next,Cursor::current,Bucket::range bound="root leaf page with 2 sorted symbolic 2-byte keys; three calls of next(); start bound included, end bound unbounded, both bound keys symbolic" unwind=5
#[kani::proof]
#[kani::unwind(5)]
fn range_included_unbounded() {
    range_case(0, 2);
}

// @ob props=C08 tier=quick cap=800 mem=16 fns=Range::next,Cursor::seek,Cursor::next,Cursor::current,Bucket::range bound="root leaf page with 2 sorted symbolic 2-byte keys; three calls of next(); start bound excluded, end bound included, both bound keys symbolic" unwind=5
#[kani::proof]
#[kani::unwind(5)]
fn range_excluded_included() {
    range_case(1, 0);
}

// @ob props=C08 tier=thorough cap=1500 mem=16 fns=Range::next,Cursor::seek,Cursor::next,Cursor::current,Bucket::range bound="root leaf page with 2 sorted symbolic 2-byte keys; three calls of next(); start bound excluded, end bound excluded, both bound keys symbolic" unwind=5
#[kani::proof]
#[kani::unwind(5)]
fn range_excluded_excluded() {
    range_case(1, 1);
}

// @ob props=C08 tier=thorough cap=1500 mem=16 fns=Range::next,Cursor::seek,Cursor::next,Cursor::current,Bucket::range bound="root leaf page with 2 sorted symbolic 2-byte keys; three calls of next(); start bound excluded, end bound unbounded, both bound keys symbolic" unwind=5
#[kani::proof]
#[kani::unwind(5)]
fn range_excluded_unbounded() {
    range_case(1, 2);
}

// @ob props=C08 tier=quick cap=400 fns=Range::next,Cursor::seek,Cursor::next,Cursor::current,Bucket::range bound="root leaf page with 2 sorted symbolic 2-byte keys; three calls of next(); start bound unbounded, end bound included, both bound keys symbolic" unwind=5
#[kani::proof]
#[kani::unwind(5)]
fn range_unbounded_included() {
    range_case(2, 0);
}

// @ob props=C08 tier=quick cap=400 fns=Range::next,Cursor::seek,Cursor::next,Cursor::current,Bucket::range bound="root leaf page with 2 sorted symbolic 2-byte keys; three calls of next(); start bound unbounded, end bound excluded, both bound keys symbolic" unwind=5
#[kani::proof]
#[kani::unwind(5)]
fn range_unbounded_excluded() {
    range_case(2, 1);
}

// @ob props=C08 tier=quick cap=400 fns=Range::next,Cursor::seek,Cursor::next,Cursor::current,Bucket::range bound="root leaf page with 2 sorted symbolic 2-byte keys; three calls of next(); start bound unbounded, end bound unbounded, both bound keys symbolic" unwind=5
#[kani::proof]
#[kani::unwind(5)]
fn range_unbounded_unbounded() {
    range_case(2, 2);
}

// ---- C08-Ob4: a range whose start bound sits at the END of the first of two leaves (the last key of leaf 1, or an
//      absent key in the gap between the leaves): the skip of an excluded start has to cross the leaf boundary
fn range_two_leaves_case(sk: u8, gap: bool, symbolic: bool) {
    let (a, c): ([[u8; 2]; 2], [[u8; 2]; 2]) = if symbolic { (kani::any(), kani::any()) } else { ([[10, 0], [20, 5]], [[30, 0], [40, 0]]) };
    let s: [u8; 2] = if !gap { a[1] } else if symbolic { kani::any() } else { [20, 9] };
    kani::assume(a[0] < a[1] && a[1] < c[0] && c[0] < c[1]);
    if gap {
        kani::assume(a[1] < s && s < c[0]);
    }
    tree_two_leaves(&a, &c);
    let b = mk_bucket(3, false);
    let e = [0u8; 2];
    let mut r = b.range(RB { s: bound_of(sk, &s), e: bound_of(2, &e) });
    let d0 = r.next();
    let d1 = r.next();
    let d2 = r.next();
    let d3 = r.next();
    let got = [key_of(&d0), key_of(&d1), key_of(&d2), key_of(&d3)];
    let exp: [Option<[u8; 2]>; 4] = if sk == 0 && !gap {
        [Some(a[1]), Some(c[0]), Some(c[1]), None]
    } else {
        [Some(c[0]), Some(c[1]), None, None]
    };
    let mut j = 0;
    while j < 4 {
        assert!(got[j] == exp[j], "JV-C08-LEAF-END: a range starting at the end of a leaf yields exactly the later entries, across the leaf boundary");
        j += 1;
    }
    std::mem::forget(d0);
    std::mem::forget(d1);
    std::mem::forget(d2);
    std::mem::forget(d3);
    std::mem::forget(r);
    std::mem::forget(b);
}
// @ob props=C08 tier=quick cap=500 mem=5 fns=Range::next,Cursor::seek,search,Cursor::next,Cursor::current,PageNode::index,PageNode::index_page bound="branch page over two leaf pages with 2 keys each, concrete keys (one execution, all checks on); start = Excluded(last key of the first leaf), end unbounded; four calls of next()" unwind=5
#[kani::proof]
#[kani::unwind(5)]
fn range_two_leaves_excluded_last_of_leaf() {
    range_two_leaves_case(1, false, false);
}
// @ob props=C08 tier=parked cap=3000 mem=12 fns=Range::next,Cursor::seek,search,Cursor::next,Cursor::current,PageNode::index,PageNode::index_page bound="same tree with all 4 keys symbolic (ascending 2-byte keys); start = Excluded(last key of the first leaf), end unbounded; four calls of next()" unwind=5
#[kani::proof]
#[kani::unwind(5)]
fn range_two_leaves_excluded_last_of_leaf_sym() {
    range_two_leaves_case(1, false, true);
}
// @ob props=C08 tier=parked cap=3000 mem=8 fns=Range::next,Cursor::seek,search,Cursor::next,Cursor::current,PageNode::index,PageNode::index_page bound="branch page over two leaf pages with 2 keys each, concrete keys (one execution, all checks on); start = Excluded(absent key in the gap between the leaves), end unbounded; four calls of next()" unwind=5
#[kani::proof]
#[kani::unwind(5)]
fn range_two_leaves_excluded_gap() {
    range_two_leaves_case(1, true, false);
}
// @ob props=C08 tier=parked cap=3000 mem=12 fns=Range::next,Cursor::seek,search,Cursor::next,Cursor::current,PageNode::index,PageNode::index_page bound="same tree with all 4 keys symbolic (ascending 2-byte keys) and the absent start key symbolic; start = Excluded(absent key in the gap between the leaves), end unbounded; four calls of next()" unwind=5
#[kani::proof]
#[kani::unwind(5)]
fn range_two_leaves_excluded_gap_sym() {
    range_two_leaves_case(1, true, true);
}
// @ob props=C08 tier=quick cap=500 mem=5 fns=Range::next,Cursor::seek,search,Cursor::next,Cursor::current,PageNode::index,PageNode::index_page bound="branch page over two leaf pages with 2 keys each, concrete keys (one execution, all checks on); start = Included(last key of the first leaf), end unbounded; four calls of next()" unwind=5
#[kani::proof]
#[kani::unwind(5)]
fn range_two_leaves_included_last_of_leaf() {
    range_two_leaves_case(0, false, false);
}
// @ob props=C08 tier=parked cap=3000 mem=12 fns=Range::next,Cursor::seek,search,Cursor::next,Cursor::current,PageNode::index,PageNode::index_page bound="same tree with all 4 keys symbolic (ascending 2-byte keys); start = Included(last key of the first leaf), end unbounded; four calls of next()" unwind=5
#[kani::proof]
#[kani::unwind(5)]
fn range_two_leaves_included_last_of_leaf_sym() {
    range_two_leaves_case(0, false, true);
}
// @ob props=C08 tier=parked cap=3000 mem=8 fns=Range::next,Cursor::seek,search,Cursor::next,Cursor::current,PageNode::index,PageNode::index_page bound="branch page over two leaf pages with 2 keys each, concrete keys (one execution, all checks on); start = Included(absent key in the gap between the leaves), end unbounded; four calls of next()" unwind=5
#[kani::proof]
#[kani::unwind(5)]
fn range_two_leaves_included_gap() {
    range_two_leaves_case(0, true, false);
}
// @ob props=C08 tier=parked cap=3000 mem=12 fns=Range::next,Cursor::seek,search,Cursor::next,Cursor::current,PageNode::index,PageNode::index_page bound="same tree with all 4 keys symbolic (ascending 2-byte keys) and the absent start key symbolic; start = Included(absent key in the gap between the leaves), end unbounded; four calls of next()" unwind=5
#[kani::proof]
#[kani::unwind(5)]
fn range_two_leaves_included_gap_sym() {
    range_two_leaves_case(0, true, true);
}

// ---- generic hand-layer for the pinned page format (concrete shapes, bytes may be symbolic)
pub(crate) struct Ent<'a> {
    pub t: u8,
    pub k: &'a [u8],
    pub v: &'a [u8],
}

/// loop-free copy of at most 16 bytes (harness unwind bounds are spent on the code under test)
unsafe fn put_bytes(dst: *mut u8, src: &[u8]) {
    assert!(src.len() <= 16);
    if WORD_STORES {
        // read-modify-write of the containing 64-bit word: with concrete bytes the page image stays a constant for
        // CBMC's symbolic execution (a byte store into the word-typed image does not), so key comparisons in the
        // code under test fold and a concrete scenario is ONE path
        macro_rules! w {
            ($($i:literal)*) => { $( if $i < src.len() {
                let a = dst.add($i) as usize;
                let wp = (a & !7usize) as *mut u64;
                let sh = 8 * (a & 7) as u32;
                *wp = (*wp & !(0xffu64 << sh)) | ((src[$i] as u64) << sh);
            } )* };
        }
        w!(0 1 2 3 4 5 6 7 8 9 10 11 12 13 14 15);
        return;
    }
    macro_rules! b {
        ($($i:literal)*) => { $( if $i < src.len() { *dst.add($i) = src[$i]; } )* };
    }
    b!(0 1 2 3 4 5 6 7 8 9 10 11 12 13 14 15);
}
/// see put_bytes; set by concrete-scenario harnesses before they lay their pages
pub(crate) static mut WORD_STORES: bool = false;
pub(crate) fn word_stores(on: bool) {
    unsafe { WORD_STORES = on }
}

/// write a leaf page at `page_id` of TREE: header, element headers, then packed keys / values
pub(crate) fn put_leaf_page(page_id: usize, overflow: u64, ents: &[Ent]) {
    put_leaf_page_at(tree_base(), page_id, overflow, ents)
}

/// the same over any page image (e.g. the model disk)
pub(crate) fn put_leaf_page_at(image: *mut u8, page_id: usize, overflow: u64, ents: &[Ent]) {
    unsafe {
        let base = image.add(page_id * PS);
        // whole-word stores (the images are word typed): a sub-word store would leave the page-type
        // byte a non-constant for CBMC's symbolic execution and every page-type test would fork
        *(base as *mut u64) = page_id as u64;
        *(base.add(8) as *mut u64) = 2;
        *(base.add(16) as *mut u64) = ents.len() as u64;
        *(base.add(24) as *mut u64) = overflow;
        let n = ents.len();
        let mut off = 32 + 32 * n; // absolute offset of the next data byte
        let mut i = 0;
        while i < n {
            let e = base.add(32 + 32 * i);
            *(e as *mut u64) = ents[i].t as u64;
            *(e.add(8) as *mut u64) = (off - (32 + 32 * i)) as u64;
            *(e.add(16) as *mut u64) = ents[i].k.len() as u64;
            *(e.add(24) as *mut u64) = ents[i].v.len() as u64;
            put_bytes(base.add(off), ents[i].k);
            off += ents[i].k.len();
            put_bytes(base.add(off), ents[i].v);
            off += ents[i].v.len();
            i += 1;
        }
    }
}

/// write a branch page at `page_id` of TREE
pub(crate) fn put_branch_page(page_id: usize, overflow: u64, ents: &[(&[u8], u64)]) {
    unsafe {
        let base = tree_base().add(page_id * PS);
        *(base as *mut u64) = page_id as u64;
        *(base.add(8) as *mut u64) = 1;
        *(base.add(16) as *mut u64) = ents.len() as u64;
        *(base.add(24) as *mut u64) = overflow;
        let n = ents.len();
        let mut off = 32 + 24 * n;
        let mut i = 0;
        while i < n {
            let e = base.add(32 + 24 * i);
            *(e as *mut u64) = ents[i].1;
            *(e.add(8) as *mut u64) = ents[i].0.len() as u64;
            *(e.add(16) as *mut u64) = (off - (32 + 24 * i)) as u64;
            put_bytes(base.add(off), ents[i].0);
            off += ents[i].0.len();
            i += 1;
        }
    }
}

pub(crate) fn bucket_value(root_page: u64, next_int: u64) -> [u8; 16] {
    // loop-free (harness unwind bounds are spent on the code under test)
    let a = root_page.to_le_bytes();
    let b = next_int.to_le_bytes();
    [a[0], a[1], a[2], a[3], a[4], a[5], a[6], a[7], b[0], b[1], b[2], b[3], b[4], b[5], b[6], b[7]]
}

// ---- C07: a write transaction's scans see its own puts and deletes (node overlay over the mapped pages).
// Scenario harnesses with CONCRETE keys: a scan after a data-dependent modification doubles the symbolic state at
// every step (the infeasible outcome of the modification is only pruned by the SAT solver), which did not finish
// symbolic execution in 15 min with symbolic keys. With concrete keys there is one path; the solver's contribution
// is small (one execution of the real code, all checks on), the input space of each single operation is covered by
// the symbolic single-step harnesses in harness/bucket.rs.
fn scan_expect(b: &Bucket, exp: &[[u8; 2]]) {
    let mut c = b.cursor();
    let mut i = 0;
    while i < exp.len() {
        let d = c.next();
        assert!(key_of(&d) == Some(exp[i]), "the scan reflects the transaction's own changes, in order");
        std::mem::forget(d);
        i += 1;
    }
    let e = c.next();
    assert!(e.is_none());
    let e = c.next();
    assert!(e.is_none(), "and stays at the end");
    std::mem::forget(c);
}

// @ob props=C07 tier=quick cap=400 mem=4 fns=Cursor::next,Cursor::seek_first,Cursor::current,InnerBucket::page_node,InnerBucket::put,InnerBucket::node,PageNode::val,PageNode::len bound="concrete scenario (one execution): leaf {10,30}; put 20 (new); full scan" unwind=6
#[kani::proof]
#[kani::unwind(6)]
fn cursor_scan_after_put_new_concrete() {
    tree_single_leaf(&[[10, 0], [30, 0], [0, 0]], 2);
    let b = mk_bucket(3, true);
    let r = b.put([20u8, 0], [42u8]);
    assert!(r.is_ok());
    std::mem::forget(r);
    scan_expect(&b, &[[10, 0], [20, 0], [30, 0]]);
    assert!(b.next_int() == 1);
    std::mem::forget(b);
}

// @ob props=C07 tier=quick cap=400 mem=4 fns=Cursor::next,Cursor::current,InnerBucket::page_node,InnerBucket::put,InnerBucket::get bound="concrete scenario (one execution): leaf {10,30}; put over 30; full scan and lookup" unwind=6
#[kani::proof]
#[kani::unwind(6)]
fn cursor_scan_after_overwrite_concrete() {
    tree_single_leaf(&[[10, 0], [30, 0], [0, 0]], 2);
    let b = mk_bucket(3, true);
    let r = b.put([30u8, 0], [43u8]);
    assert!(r.is_ok());
    std::mem::forget(r);
    scan_expect(&b, &[[10, 0], [30, 0]]);
    let g = b.get([30u8, 0]);
    match &g {
        Some(Data::KeyValue(kv)) => assert!(kv.value() == &[43u8][..], "an overwrite is visible to the transaction"),
        _ => assert!(false),
    }
    std::mem::forget(g);
    assert!(b.next_int() == 0, "an overwrite does not bump the counter");
    std::mem::forget(b);
}

// @ob props=C07,C01 tier=quick cap=900 mem=8 fns=Cursor::next,Cursor::seek_first,Cursor::current,InnerBucket::page_node,InnerBucket::delete,InnerBucket::node bound="concrete scenario (one execution): leaf {10,20,30}; delete 20, scan; delete 10, scan; delete 30, scan (empty)" unwind=6
#[kani::proof]
#[kani::unwind(6)]
fn cursor_scan_after_deletes_concrete() {
    tree_single_leaf(&[[10, 0], [20, 0], [30, 0]], 3);
    let b = mk_bucket(3, true);
    let r = b.delete([20u8, 0]);
    assert!(r.is_ok());
    std::mem::forget(r);
    scan_expect(&b, &[[10, 0], [30, 0]]);
    let r = b.delete([10u8, 0]);
    assert!(r.is_ok());
    std::mem::forget(r);
    scan_expect(&b, &[[30, 0]]);
    let r = b.delete([30u8, 0]);
    assert!(r.is_ok());
    std::mem::forget(r);
    scan_expect(&b, &[]);
    let g = b.get([10u8, 0]);
    assert!(g.is_none());
    std::mem::forget(g);
    std::mem::forget(b);
}

// ---- C07: two leaves under a branch; the transaction empties the FIRST leaf, the scan must still deliver the second
// @ob props=C07 tier=quick cap=600 mem=6 fns=Cursor::next,Cursor::on_empty_leaf,Cursor::seek_first,Cursor::current,InnerBucket::page_node,InnerBucket::delete,InnerBucket::node,PageNode::val bound="concrete scenario (one execution): branch over leaves {10,20} and {30,40}; both keys of the first leaf deleted; then a full scan and a seek" unwind=6
#[kani::proof]
#[kani::unwind(6)]
fn cursor_scan_after_emptying_first_leaf() {
    tree_two_leaves(&[[10, 0], [20, 0]], &[[30, 0], [40, 0]]);
    let b = mk_bucket(3, true);
    let r = b.delete([10u8, 0]);
    assert!(r.is_ok());
    std::mem::forget(r);
    let r = b.delete([20u8, 0]);
    assert!(r.is_ok());
    std::mem::forget(r);
    let mut c = b.cursor();
    let d = c.next();
    assert!(key_of(&d) == Some([30, 0]), "JV-C07-EMPTY-LEAF: the scan skips the emptied leaf and delivers the entries of the next one");
    std::mem::forget(d);
    let d = c.next();
    assert!(key_of(&d) == Some([40, 0]));
    std::mem::forget(d);
    let e = c.next();
    assert!(e.is_none());
    std::mem::forget(c);
    std::mem::forget(b);
}

// ---- C07: two leaves; put into the second leaf, the scan crosses from an untouched page into a materialised node
// @ob props=C07 tier=quick cap=700 mem=6 fns=Cursor::next,Cursor::seek_first,Cursor::current,InnerBucket::page_node,InnerBucket::put,InnerBucket::node,Node::insert_child bound="concrete scenario (one execution): branch over leaves {10,20} and {30,40}; put 35; full scan; lookups in both leaves" unwind=6
#[kani::proof]
#[kani::unwind(6)]
fn cursor_scan_mixed_page_and_node() {
    tree_two_leaves(&[[10, 0], [20, 0]], &[[30, 0], [40, 0]]);
    let b = mk_bucket(3, true);
    let r = b.put([35u8, 0], [42u8]);
    assert!(r.is_ok());
    std::mem::forget(r);
    scan_expect(&b, &[[10, 0], [20, 0], [30, 0], [35, 0], [40, 0]]);
    let g = b.get([20u8, 0]);
    assert!(key_of(&g) == Some([20, 0]), "a lookup through the untouched leaf still works");
    std::mem::forget(g);
    let g = b.get([35u8, 0]);
    assert!(key_of(&g) == Some([35, 0]));
    std::mem::forget(g);
    std::mem::forget(b);
}

// ---- C08-Ob3 (quick variant): seek on a 2-key leaf (the 3-key variant is in the thorough tier)
// @ob props=C08,C07 tier=quick cap=700 mem=6 fns=Cursor::seek,search,Cursor::next,Cursor::current,PageNode::index bound="root leaf page with 2 sorted symbolic 2-byte keys; seek key symbolic 2 bytes; then three calls of next()" unwind=5
#[kani::proof]
#[kani::unwind(5)]
fn cursor_seek_two_keys() {
    let k2: [[u8; 2]; 2] = kani::any();
    kani::assume(k2[0] < k2[1]);
    tree_single_leaf(&[k2[0], k2[1], [0, 0]], 2);
    let b = mk_bucket(3, false);
    let mut c = b.cursor();
    let s: [u8; 2] = kani::any();
    let exists = c.seek(s);
    let d0 = c.next();
    let d1 = c.next();
    let d2 = c.next();
    let got = [key_of(&d0), key_of(&d1), key_of(&d2)];
    let hit = s == k2[0] || s == k2[1];
    assert!(exists == hit, "seek reports whether the key exists");
    // iteration starts at the key, or at an immediate neighbour (the greatest smaller key, or the smallest key)
    let start = if s >= k2[1] { 1 } else { 0 };
    if start == 0 {
        assert!(got[0] == Some(k2[0]) && got[1] == Some(k2[1]) && got[2].is_none(), "every later entry follows in order");
    } else {
        assert!(got[0] == Some(k2[1]) && got[1].is_none() && got[2].is_none());
    }
    kani::cover!(hit && start == 1);
    kani::cover!(!hit && s < k2[0]);
    kani::cover!(!hit && s > k2[1]);
    std::mem::forget(d0);
    std::mem::forget(d1);
    std::mem::forget(d2);
    std::mem::forget(c);
    std::mem::forget(b);
}
